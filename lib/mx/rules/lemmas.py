"""D3 lemma table for C12 (and C16): named facts with a machine-checked applicability pattern.

A lemma discharges an obligation only when (a) the obligation matches the lemma's pattern and (b) the lemma's side
conditions are re-established from the current source on this run.  Each carries its reason; the table is deliberately small."""
from .. import absint as A
from .. import mir, sym


class Lemmas:
    def __init__(self, u, g, st):
        self.u, self.g, self.st = u, g, st
        self._mono = {}
        self.used = {}

    def note(self, name):
        self.used[name] = self.used.get(name, 0) + 1
        return name

    # ------------------------------------------------------------------------------------------
    def try_discharge(self, ob, cxs):
        b = self.u.bodies[ob.fn]
        t = ob.node
        k = ob.kind
        if k == "overflow:Add":
            m = t["msg"]
            a, c = sym.expr(b, m["a"]), sym.expr(b, m["b"])
            one = (c == ("const", 1, c[2])) if c[0] == "const" else False
            # L-MONO64: a u64 field that is only ever initialised by a constant and assigned `field + 1`
            if one and a[0] == "load" and a[2] == "u64" and a[1].startswith("arg1."):
                fld = a[1].split(".")[-1]
                if self.monotone_field(fld, "u64"):
                    return self.note("L-MONO64") + ": `%s` is a u64 counter only ever incremented by 1 from a constant: overflow needs 2^64 calls" % fld
            # L-COUNT: counts of queued samples / loop iterations over a queue, + 1  (assumption A1: fewer than 2^32 samples per track, fragments per muxer)
            if one and self.is_count(b, a, ob):
                return self.note("L-COUNT") + ": a count of queue elements / iterations (+1); bounded under assumption A1 (< 2^32 samples per track and fragments per muxer)"
        if k == "overflow:Sub":
            l = self.sorted_difference(ob, b, t, cxs)
            if l:
                return l
            m = t["msg"]
            a, c = sym.expr(b, m["a"]), sym.expr(b, m["b"])
            if a[0] == "const" and isinstance(a[1], int) and c[0] == "load" and isinstance(c[1], str) and c[1].startswith("arg1.") and c[1].count(".") == 1:
                fld = c[1].split(".")[1]
                hi = self.wrap_counter(fld, ob)
                if hi is not None and hi <= a[1]:
                    return self.note("L-WRAP") + ": field `%s` is a wrapping counter: constructed 0, only ever `+= 1` immediately followed by `if %s == %d { %s = 0 }`, so it is <= %d at every method entry; no increment precedes this site" % (fld, fld, hi + 1, fld, hi)
        if k == "call:with":
            # L-TLS: LocalKey::with panics only during/after thread-local destruction; the closure must not re-enter the same key
            clo = self.closure_arg(b, t)
            if clo and not self.reaches_tls(clo):
                return self.note("L-TLS") + ": thread-local accessed outside destructors; the closure does not re-enter a LocalKey"
        if k in ("call:borrow_mut", "call:borrow"):
            # L-REFCELL: the RefCell is the thread-local log, borrowed for the duration of one statement inside a non-reentrant closure
            if not self.reaches_tls(ob.fn) or mir.norm(ob.fn).startswith("invariant_ppt::"):
                if self.single_borrow(b):
                    return self.note("L-REFCELL") + ": single, statement-scoped borrow inside a closure that calls nothing re-entrant"
        if k.startswith("call:sort"):
            clo = self.closure_arg(b, t)
            if clo and self.total_no_panic(clo):
                return self.note("L-SORT") + ": key closure is panic-free and returns a tuple of integers (total order)"
        if k == "invariant":
            l = self.buffer_length_invariant(ob, b, t, cxs)
            if l:
                return l
            l = self.sample_sizes_nonzero(ob, b, t)
            if l:
                return l
        if k == "overflow:Add":
            l = self.offset_cursor(ob, b, t, cxs) or self.cursor_plus_total(ob, b, t, cxs)
            if l:
                return l
        if k in ("call:index", "call:index_mut"):
            l = self.schedule_index(ob, b, t)
            if l:
                return l
        if k == "call:panic_fmt" and mir.norm(ob.fn) == "invariant_ppt::__assert_invariant_impl":
            # the panic inside the invariant helper is accounted for at every call site (kind `invariant`)
            gs = _guards(b, ob.bb)
            if any(d[0] == "arg" and d[1] == 1 and tk in (("eq", "0"),) for (_s, d, tk) in gs):
                return self.note("L-INVIMPL") + ": panics iff its `condition` argument is false; every call site is its own obligation"
        return None

    # ------------------------------------------------------------------------------------------
    def schedule_summary(self, fn):
        """for a local function returning a Vec of (key, Kind, index) tuples: {variant name: queue field} when every push is
        (_, Kind::<V>, idx) with idx the enumerate index of a loop over `self.<queue>` and the vector is otherwise only sorted"""
        cache = self.__dict__.setdefault("_sched", {})
        if fn in cache:
            return cache[fn]
        cache[fn] = None
        b = self.u.bodies[fn]
        cx = A.Ctx(b, self.u)
        out = {}
        vecs = set()
        others = []
        for bb, t, name, info in mir.calls(b):
            last = mir.norm(name or "").split("::")[-1]
            if last == "push" and "Vec" in (name or "") and len(t["args"]) == 2:
                recv = sym.expr(b, t["args"][0])
                val = sym.expr(b, t["args"][1])
                if not (val[0] == "agg" and val[1] == "tuple" and len(val[3]) == 3 and val[3][1][0] == "agg"):
                    return None
                kind = str(val[3][1][1]).split("::")[-1]
                ei = cx.enum_index(val[3][2])
                if ei is None or ei[0] is None:
                    return None
                base = ei[0]
                while base[0] == "ref":
                    base = base[1]
                if not (base[0] in ("refplace", "load") and isinstance(base[1], str) and base[1].startswith("arg1.") and base[1].count(".") == 1):
                    return None
                q = base[1].split(".")[1]
                if out.get(kind, q) != q:
                    return None
                out[kind] = q
                vecs.add(sym.show(recv))
            elif last == "extend" and "Vec" in (name or "") and len(t["args"]) == 2:
                # `v.extend(self.<queue>.iter().enumerate().map(|(i, s)| (_, Kind::<V>, i)))`: the same entries as the push loop
                recv = sym.expr(b, t["args"][0])
                it_ = sym.expr(b, t["args"][1])
                if not (it_[0] == "call" and it_[1].split("::")[-1] == "map" and len(it_[2]) == 2 and it_[2][1][0] == "agg" and str(it_[2][1][1]).startswith("closure ")):
                    return None
                src_ = it_[2][0]
                if not (src_[0] == "call" and src_[1].split("::")[-1] == "enumerate" and src_[2]):
                    return None
                base = src_[2][0]
                while base[0] == "ref" or (base[0] == "call" and base[1].split("::")[-1] in ("iter", "into_iter", "deref", "as_slice") and base[2]):
                    base = base[1] if base[0] == "ref" else base[2][0]
                if not (base[0] in ("refplace", "load") and isinstance(base[1], str) and base[1].startswith("arg1.") and base[1].count(".") == 1):
                    return None
                cands = [k for k in self.u.bodies if mir.norm(k) == mir.norm(str(it_[2][1][1])[len("closure "):])]
                if len(cands) != 1:
                    return None
                cb = self.u.bodies[cands[0]]
                val = sym.expr_local(cb, 0)
                if not (val[0] == "agg" and val[1] == "tuple" and len(val[3]) == 3 and val[3][1][0] == "agg" and self.closure_param_enum_index(cands[0], val[3][2])):
                    return None
                kind = str(val[3][1][1]).split("::")[-1]
                q = base[1].split(".")[1]
                if out.get(kind, q) != q:
                    return None
                out[kind] = q
                vecs.add(sym.show(recv))
            elif any(a.get("k") in ("copy", "move") and mir._mut_ptr_arg(a["place"]["ty"]) for a in t["args"]):
                others.append((last, [sym.show(sym.expr(b, a)) for a in t["args"] if a.get("k") in ("copy", "move") and mir._mut_ptr_arg(a["place"]["ty"])]))
        if len(vecs) != 1 or not out:
            return None
        vtxt = list(vecs)[0]
        for last, ptrs in others:
            if any(vtxt.lstrip("&") in p_ for p_ in ptrs) and not (last.startswith("sort") or last == "deref_mut"):
                return None
        # the pushed-to vector is what is returned
        r0 = sym.show(sym.expr_local(b, 0))
        if r0.strip("&[]") not in list(vecs)[0]:
            return None
        cache[fn] = out
        return out

    def schedule_index(self, ob, b, t):
        base, ix = sym.expr(b, t["args"][0]), sym.expr(b, t["args"][1])
        x = base
        while x[0] == "ref":
            x = x[1]
        if not (x[0] in ("refplace", "load") and isinstance(x[1], str) and x[1].startswith("arg1.") and x[1].count(".") == 1):
            return None
        q = x[1].split(".")[1]
        txt = sym.show(ix)
        if not txt.rstrip("]").endswith(".2"):
            return None
        # the producer: a call to a local function somewhere under the index expression, or defining the local it is loaded from
        prod = None
        for y in sym.walk(ix):
            if isinstance(y, tuple) and y and y[0] == "call" and len(y) > 3 and y[3] in self.u.bodies:
                prod = y[3]
        if prod is None and ix[0] == "load" and isinstance(ix[1], str) and ix[1].startswith("_"):
            try:
                l = int(ix[1][1:].split(".")[0])
            except ValueError:
                return None
            e = sym.expr_local(b, l)
            while e[0] == "ref":
                e = e[1]
            if e[0] == "call" and len(e) > 3 and e[3] in self.u.bodies:
                prod = e[3]
        if prod is None:
            return None
        summ = self.schedule_summary(prod)
        if not summ:
            return None
        kinds = [kname for kname, qq in summ.items() if qq == q]
        if len(kinds) != 1:
            return None
        # the site is guarded by `element.1 is <that kind>`
        def core(t_):
            return t_[1:-1] if (t_.startswith("[") and t_.endswith("]")) else t_
        elem = core(txt)[:-2]
        adt = None
        ok = False
        for (s_, d, tk) in _guards(b, ob.bb):
            if d[0] != "discr":
                continue
            dt = sym.show(d[1])
            if core(dt) == elem + ".1":
                ty = None
                for y in sym.walk(d[1]):
                    pass
                # variant index of the kind
                for a in self.u.adts.values():
                    names = [v["name"] for v in a.get("variants", [])]
                    if a.get("kind") == "Enum" and set(summ) <= set(names) and len(names) == len(summ):
                        adt = names
                if adt is None:
                    return None
                want = str(adt.index(kinds[0]))
                if tk == ("eq", want) or (tk[0] == "ne" and len(adt) == 2 and tk[1] == [str(1 - int(want))]):
                    ok = True
        if not ok:
            return None
        # the queue's length cannot change in this function
        for (bb, i, (root, path), why, node) in self.st.sites.get(ob.fn, []):
            if root == ("arg", 1) and path[:1] == (q,) and len(path) == 1:
                return None
        return self.note("L-SCHEDULE") + ": index comes from %s, whose entries (_, %s, i) are pushed with i = enumerate index over self.%s; site guarded by kind == %s; the queue is not resized here" % (mir.norm(prod).split("::")[-1], kinds[0], q, kinds[0])

    def buffer_length_invariant(self, ob, b, t, cxs):
        """L-BOXLEN: `len(<returned buffer>) == <linear in len(params)>` decided from the function's symbolic production (HIR
        layout interpreter): the production's width must be that very expression"""
        import re
        from .. import layout as LY
        c = sym.expr(b, t["args"][0])
        if not (c[0] == "bin" and c[1] == "Eq" and c[2][0] == "call" and c[2][1].split("::")[-1] == "len" and c[2][2]):
            return None
        buf = c[2][2][0]
        while buf[0] == "ref":
            buf = buf[1]
        ret = sym.expr_local(b, 0)
        if buf != ret:
            return None
        # every later mutation of the buffer would invalidate the comparison: the assertion must be the last thing before return
        hn = [k_ for k_ in self.u.hir if mir.norm(k_) == mir.norm(ob.fn)]
        if len(hn) != 1:
            return None
        names = [mir.debug_name(b, i) for i in range(1, b["argc"] + 1)]
        if any(n is None for n in names):
            return None
        try:
            w = LY.width(LY.Interp(self.u).production(hn[0], [("param", n) for n in names]))
        except Exception:
            return None
        cx = A.Ctx(b, self.u)
        rhs = cx.lin(c[3])
        want = A.Lin(int(w.const))
        for term, coef in w.terms.items():
            if not (term[0] == "len" and term[1][0] == "param" and term[1][1] in names):
                return None
            i = names.index(term[1][1]) + 1
            ty = b["locals"][i]["ty"]
            m = re.search(r"\[u8; (\d+)\]", ty)
            if m:
                want = want + A.Lin(int(m.group(1)) * int(coef))
            else:
                want = want + cx.atom(("len", "arg%d" % i), 0, A.LEN_MAX).scale(int(coef))
        d = want - rhs
        if d.is_const() and d.c == 0:
            return self.note("L-BOXLEN") + ": the function's byte production has width %s, which is the asserted length" % w
        return None

    # ------------------------------------------------------------------------------------------
    def sorted_difference(self, ob, b, t, cxs):
        """L-SORTED: `x[j].f - x[i].f` with j >= i where x is (on every call path) a sample queue whose writer only appends
        elements with f >= the f of the previously appended element"""
        m = t["msg"]
        a, c = sym.expr(b, m["a"]), sym.expr(b, m["b"])
        if not (a[0] == "load" and c[0] == "load" and a[1] == c[1] and isinstance(a[1], str) and ".[]." in a[1] and a[1].startswith("arg")):
            return None
        root = a[1].split(".")[0]
        if not root[3:].isdigit() or a[1].split(".")[1:-1] != ["[]"]:
            return None
        k = int(root[3:])
        fld = a[1].split(".")[-1]
        cx = cxs.get(ob.fn) or A.Ctx(b, self.u, self.st.sites.get(ob.fn))
        # index of each operand: explicit index expression, or the enumerate index of the loop whose element it is
        enum = None
        for x in (a, c):
            if len(x) > 3:
                for y in [z for ie in x[3] for z in sym.walk(ie)]:
                    if isinstance(y, tuple) and y and y[0] == "proj":
                        ei = cx.enum_index(y)
                        if ei is not None and ei[0] is not None:
                            base = ei[0]
                            while base[0] == "ref":
                                base = base[1]
                            if enum is None and (base[0] in ("arg",) and base[1] == k or (base[0] in ("refplace", "load") and base[1] == root)):
                                enum = y
        def index_of(x):
            if len(x) > 3 and len(x[3]) == 1:
                return cx.lin(x[3][0])
            if len(x) == 3 and enum is not None:
                return cx.lin(enum)
            return None
        ia, ic = index_of(a), index_of(c)
        if ia is None or ic is None:
            return None
        ok, h = cx.prove_le0(ic - ia, ob.bb)          # index of the subtrahend <= index of the minuend
        if not ok:
            return None
        q = self.param_is_sorted_queue(ob.fn, k, fld, 0)
        if not q:
            return None
        return self.note("L-SORTED") + ": elements of `%s` are appended in non-decreasing `%s` order (guard at the only push site, watermark updated with the pushed value); the minuend's index is >= the subtrahend's (%s)" % (q, fld, h)

    def param_is_sorted_queue(self, fn, k, fld, depth):
        """every call path hands the sorted queue (or a whole-value `take` of it) to parameter k of fn: returns its name"""
        if depth > 6:
            return None
        sites = A._call_sites(self.u, fn)
        if not sites:
            return None
        names = set()
        for (p, cb, bb, args) in sites:
            if k - 1 >= len(args):
                return None
            x = args[k - 1]
            while x[0] in ("ref",) or (x[0] == "call" and x[1].split("::")[-1] in ("deref", "as_slice") and x[2]) or (x[0] == "cast" and str(x[1]).startswith("PointerCoercion")):
                x = x[1] if x[0] == "ref" else (x[2][0] if x[0] == "call" else x[4])
            if x[0] == "call" and x[1] in ("std::mem::take", "core::mem::take") and x[2]:
                x = x[2][0]
                while x[0] == "ref":
                    x = x[1]
            if x[0] in ("refplace", "load") and isinstance(x[1], str) and x[1].startswith("arg") and x[1][3:].isdigit():
                x = ("arg", int(x[1][3:]), x[1])
            if x[0] == "arg":
                r = self.param_is_sorted_queue(p, x[1], fld, depth + 1)
                if not r:
                    return None
                names.add(r)
            elif x[0] in ("refplace", "load") and isinstance(x[1], str) and x[1].startswith("arg1.") and x[1].count(".") == 1:
                owner = self.u.bodies[p].get("impl_self", "")
                r = self.queue_sorted(owner, x[1].split(".")[1], fld)
                if not r:
                    return None
                names.add(r)
            else:
                return None
        return names.pop() if len(names) == 1 else None

    def queue_sorted(self, owner, q, fld):
        """self.<q> of type `owner` only grows by push of an element whose `fld` is >= a watermark field that is then set to it"""
        cache = self.__dict__.setdefault("_qs", {})
        key = (owner, q, fld)
        if key in cache:
            return cache[key]
        cache[key] = None
        pushes = []
        for p, b in self.u.bodies.items():
            if b["in_test_cfg"] or b.get("impl_self", "") != owner:
                continue
            for (bb, i, (root, path), why, node) in self.st.sites.get(p, []):
                if root == ("arg", 1) and path == (q,):
                    if why.endswith("Vec::push"):
                        pushes.append((p, bb, node))
                    elif why.startswith("extcall std::mem::take") or why.startswith("extcall core::mem::take") or why.endswith("Vec::clear"):
                        continue          # emptying keeps the order of whatever is appended later w.r.t. the watermark
                    elif why.startswith("call "):
                        continue          # accounted for in the callee
                    else:
                        return None
        if len(pushes) != 1:
            return None
        p, bb, node = pushes[0]
        b = self.u.bodies[p]
        val = sym.expr(b, node["args"][1])
        if not (val[0] == "agg" and fld in (val[2] or ())):
            return None
        pushed = val[3][list(val[2]).index(fld)]
        cx = A.Ctx(b, self.u, self.st.sites.get(p))
        # watermark: a field W with a store `W = Some(pushed)` (or `= pushed`) dominating the push, and a guard `pushed >= W.0` before it
        wm = None
        for (sbb, i, (root, path), why, nd) in self.st.sites.get(p, []):
            if root == ("arg", 1) and len(path) == 1 and path[0] != q and why.startswith("assign") and nd.get("k") == "assign":
                e = sym.expr_rv(b, nd["rv"])
                inner = e[3][0] if (e[0] == "agg" and str(e[1]).endswith("Option::Some") and e[3]) else e
                if inner == pushed and (sbb in cx.dom.get(bb, ()) or sbb == bb):
                    wm = (path[0], sbb)
        if wm is None:
            return None
        # every store to the watermark in the whole type is that one
        for p2, b2 in self.u.bodies.items():
            if b2["in_test_cfg"] or b2.get("impl_self", "") != owner:
                continue
            for (sbb, i, (root, path), why, nd) in self.st.sites.get(p2, []):
                if root == ("arg", 1) and path[:1] == (wm[0],) and not (p2 == p and sbb == wm[1]) and not why.startswith("call "):
                    return None
        # guard before the watermark update: not(pushed < W.0) on the Some arm
        from .. import guards as G
        ok = False
        for (s_, d, tk) in G.guards_of(b, wm[1]):
            pass
        edges = []
        # the update block is reached either with W == None, or with the comparison `pushed < W` false
        def cond_ok(d, tk):
            tr = G.truth(tk)
            if d[0] == "bin" and d[1] in ("Lt", "Gt", "Le", "Ge") and tr is not None:
                lhs, rhs = d[2], d[3]
                wside = lambda x: any(isinstance(y, tuple) and len(y) > 1 and y[0] in ("load", "proj") and ("arg1." + wm[0]) in str(y) for y in sym.walk(x))
                if lhs == pushed and wside(rhs):
                    return (d[1] == "Lt" and tr is False) or (d[1] == "Ge" and tr is True)
                if rhs == pushed and wside(lhs):
                    return (d[1] == "Gt" and tr is False) or (d[1] == "Le" and tr is True)
            return False
        from . import c12
        inc = c12._incoming_edges(cx, wm[1])
        if not inc:
            return None
        for (pb, d, tk) in inc:
            if cond_ok(d, tk):
                continue
            # the None arm of `if let Some(last) = self.W`
            if d[0] == "discr" and ("arg1." + wm[0]) in str(d) and (tk == ("eq", "0") or (tk[0] == "ne" and list(tk[1]) == ["1"])):
                continue
            return None
        cache[key] = "%s.%s" % (owner.split("::")[-1].split("<")[0], q)
        return cache[key]

    def offset_cursor(self, ob, b, t, cxs):
        """L-CURSOR: `cursor += len(sample.data) as u32` inside the schedule loop.  Reviewed argument: the schedule holds every
        (track, index) pair once (L-SCHEDULE), so cursor <= start + sum of all payload lengths; machine-checked side conditions:
        (a) `start + (8 +) total <= u32::MAX` is entailed by the guards dominating the site, where (b) cursor's only definitions are
        `start` and `cursor + len(<queue>[i].data) as u32`, and (c) `total` is a checked accumulation of the lengths of all
        elements of those same queues (L-ALLOC pattern), and (d) the sample read is indexed by a schedule entry."""
        m = t["msg"]
        a, c = sym.expr(b, m["a"]), sym.expr(b, m["b"])
        if not (a[0] == "var" and c[0] == "cast" and c[3] == "u32"):
            return None
        cur = a[1]
        cx = cxs.get(ob.fn) or A.Ctx(b, self.u, self.st.sites.get(ob.fn))
        inits, queues = [], set()
        for d in cx.defs.get(cur, []):
            if d[0] != "stmt":
                return None
            e = sym.expr_rv(b, d[3]["rv"], stop=(cur,))
            if e[0] == "proj" and e[2] == "0" and e[1][0] == "bin" and e[1][1] == "AddWithOverflow" and e[1][2][:2] == ("var", cur):
                y = e[1][3]
                while y[0] == "cast":
                    y = y[4]
                if not (y[0] == "call" and y[1].split("::")[-1] == "len" and y[2]):
                    return None
                key = cx.len_key(y[2][0])
                if not isinstance(key[1], str):
                    return None
                # a reference that may point into either queue (`match kind { Video => &v[i], Audio => &a[i] }`) renders as
                # alternatives `p|q`; alternatives rooted in temporaries holding such references are ignored
                alts = [a_ for a_ in key[1].split("|") if not a_.startswith("_")]
                if not alts or not all(a_.startswith("arg1.") and ".[]." in a_ for a_ in alts):
                    return None
                for a_ in alts:
                    queues.add(a_.split(".[].")[0])
            else:
                inits.append(e)
        if len(inits) != 1 or not queues:
            return None
        # (c) a total accumulated over all elements of exactly these queues
        total = None
        for l, ds in cx.defs.items():
            accq = set()
            ok = len(ds) >= 2
            for d in ds:
                if d[0] != "stmt":
                    ok = False
                    break
                e = sym.expr_rv(b, d[3]["rv"], stop=(l,))
                if e[0] == "const" and e[1] == 0:
                    continue
                if cx.length_accumulation(e, l, d[1]):
                    for y in sym.walk(e):
                        if isinstance(y, tuple) and y and y[0] in ("load", "refplace") and isinstance(y[1], str) and ".[]." in y[1]:
                            accq.add(y[1].split(".[].")[0])
                    continue
                ok = False
                break
            if ok and accq == queues:
                total = l
        total_lin = cx.lin(("var", total, "t")) if total is not None else None
        if total_lin is None:
            # the total may be computed by an accumulation helper (absint.accum_helper_summary): a single-definition local whose
            # value is a constant plus sum-of-lengths terms over exactly these queues
            for l, ds in cx.defs.items():
                if len(ds) != 1 or cx.rng(b["locals"][l]["ty"]) is None:
                    continue
                li = cx.lin(sym.expr_def(b, ds[0]))
                if not li.t or not all(k[0] == "len" and isinstance(k[1], tuple) and k[1][:1] == ("sumlen",) and co == 1 for k, co in li.t.items()):
                    continue
                qs = set()
                for k in li.t:
                    for y in sym.walk(k[1][1]):
                        if isinstance(y, tuple) and len(y) > 1 and y[0] in ("refplace", "load") and isinstance(y[1], str) and y[1].startswith("arg1.") and y[1].count(".") == 1:
                            qs.add(y[1])
                if qs == queues and li.c >= 0:
                    total_lin = li
                    break
        if total_lin is None:
            return None
        # (a) start + total <= u32::MAX at the site
        goal = cx.lin(inits[0]) + total_lin - A.Lin(2 ** 32 - 1)
        ok, h = cx.prove_le0(goal, ob.bb)
        if not ok:
            return None
        # (d) the loop is driven by the schedule: the element read is indexed by a schedule entry (discharged by L-SCHEDULE)
        if not self.used.get("L-SCHEDULE"):
            return None
        return self.note("L-CURSOR") + ": chunk-offset cursor starts at %s and adds each scheduled sample's length once; guards entail start + total payload <= u32::MAX (%s); total is the checked sum over %s" % (sym.show(inits[0])[:40], h, sorted(queues))

    def cursor_plus_total(self, ob, b, t, cxs):
        """L-OBUSTEP: `self.pos + info.total_size` in the OBU iterator.  Reviewed argument: total_size is either at most
        2^56 + 10 (explicit size: at most 8 LEB128 bytes) or exactly the length of the remaining input (no size field), and
        pos < len(data) <= isize::MAX; machine-checked side conditions: (a) pos <= LEN_MAX - 1 entailed at the site, (b) the
        field interval of total_size is at most LEN_MAX + 10, (c) payload_size's definitions are a cast of the LEB128 value
        (bounded by its postcondition to < 2^62) or `len(data).saturating_sub(header_size)`."""
        m = t["msg"]
        a, c = sym.expr(b, m["a"]), sym.expr(b, m["b"])
        if not (a[0] == "load" and c[0] == "proj" and isinstance(c[2], str) and not c[2].isdigit()):
            return None
        cx = cxs.get(ob.fn) or A.Ctx(b, self.u, self.st.sites.get(ob.fn))
        ok, h = cx.prove_le0(cx.lin(a) - A.Lin(A.LEN_MAX - 1), ob.bb)
        if not ok:
            return None
        fi = cx.field_interval(c)
        if fi is None or fi[1] > A.LEN_MAX + 10:
            return None
        lem = None
        # (c) find the aggregate that builds the struct and inspect the second addend of the field
        for p, pb in self.u.bodies.items():
            if pb["in_test_cfg"]:
                continue
            for blk in pb["blocks"]:
                for st_ in blk["stmts"]:
                    if st_["k"] == "assign" and st_["rv"]["k"] == "aggregate" and c[2] in (st_["rv"].get("fields") or []):
                        e = sym.expr(pb, dict(zip(st_["rv"]["fields"], st_["rv"]["ops"]))[c[2]])
                        if A._same_field_copy(e, c[2]):
                            continue
                        if not (e[0] == "proj" and e[1][0] == "bin" and e[1][1] == "AddWithOverflow" and e[1][3][0] == "var"):
                            return None
                        pcx = A.Ctx(pb, self.u)
                        hdr = e[1][2]
                        for d in pcx.defs.get(e[1][3][1], []):
                            de = sym.expr_def(pb, d, stop=(e[1][3][1],))
                            x = de
                            while x[0] == "cast":
                                x = x[4]
                            if x[0] == "call" and x[1].split("::")[-1] == "saturating_sub" and len(x[2]) == 2 and x[2][1] == hdr and x[2][0][0] == "call" and x[2][0][1].split("::")[-1] == "len":
                                continue
                            iv = pcx.interval(de)
                            if iv is not None and iv[1] < 2 ** 62 and pcx.ret_path(x) is not None:
                                continue
                            return None
                        lem = True
        if not lem:
            return None
        return self.note("L-OBUSTEP") + ": pos <= isize::MAX - 1 (%s); total_size <= %d; payload is a <2^62 LEB128 value or len - header" % (h, fi[1])

    def sample_sizes_nonzero(self, ob, b, t):
        """L-NONEMPTY: `size > 0` for every entry of a sample-size table.  Reviewed argument: the table is
        `samples.map(|s| s.data.len() as u32)` and every queued sample has 1 <= len(data) <= u32::MAX; machine-checked side
        conditions at every push onto a sample queue of the sink type: the pushed `data` is non-empty by construction
        (to_vec / Annex-B converter of a parameter the callers guarantee non-empty (L-PRE), or the slice returned by the ADTS cut,
        whose Ok exit entails frame_length > header_length) and the guards entail len(data) <= u32::MAX."""
        c = sym.expr(b, t["args"][0])
        if not (c[0] == "bin" and c[1] == "Gt" and c[3][0] == "const" and c[3][1] == 0 and c[2][0] == "load" and str(c[2][1]).startswith("arg1.[]")):
            return None
        # the caller passes a `sizes` table built by from_samples' size closure
        ok_src = False
        for p, pb in self.u.bodies.items():
            for blk in pb["blocks"]:
                for st_ in blk["stmts"]:
                    if st_["k"] == "assign" and st_["rv"]["k"] == "aggregate" and "sizes" in (st_["rv"].get("fields") or []):
                        e = sym.expr(pb, dict(zip(st_["rv"]["fields"], st_["rv"]["ops"]))["sizes"])
                        cxp = A.Ctx(pb, self.u)
                        src = None
                        for y in sym.walk(e):
                            if isinstance(y, tuple) and y and y[0] == "call" and y[1].split("::")[-1] == "map" and len(y[2]) == 2:
                                src = cxp.sum_of_lengths(y)
                        if src is None:
                            return None
                        ok_src = True
        if not ok_src:
            return None
        from .. import anchors
        n = 0
        for p, pb in self.u.bodies.items():
            if pb["in_test_cfg"]:
                continue
            for bb, tt, name, info in mir.calls(pb):
                if not (name and mir.norm(name).split("::")[-1] == "push" and "Vec" in name and len(tt["args"]) == 2):
                    continue
                val = sym.expr(pb, tt["args"][1])
                if not (val[0] == "agg" and "data" in (val[2] or ()) and "is_keyframe" in (val[2] or ())):
                    continue
                data = val[3][list(val[2]).index("data")]
                cxp = A.Ctx(pb, self.u, self.st.sites.get(p))
                good, why = self.nonempty(cxp, pb, data, bb, 0)
                if not good:
                    return None
                ln = cxp.atom(cxp.len_key(data), 0, A.LEN_MAX)
                okk, _h = cxp.prove_le0(ln - A.Lin(2 ** 32 - 1), bb)
                if not okk:
                    return None
                n += 1
        if n < 2:
            return None
        return self.note("L-NONEMPTY") + ": %d push sites: data non-empty by construction and <= u32::MAX by guard; the size table is len(data) as u32 per sample" % n

    def nonempty(self, cx, b, e, bb, depth):
        if depth > 6:
            return False, "deep"
        while e[0] == "ref":
            e = e[1]
        if e[0] == "var":
            ds = cx.defs.get(e[1], [])
            if not ds or cx.pdefs.get(e[1]):
                return False, "undefined"
            for d in ds:
                good, why = self.nonempty(cx, b, sym.expr_def(b, d, stop=(e[1],)), d[1], depth + 1)
                if not good:
                    return False, why
            return True, "all definitions"
        if e[0] == "call":
            last = e[1].split("::")[-1]
            if last in ("to_vec", "to_owned", "clone", "into", "from", "deref", "as_slice") and e[2]:
                return self.nonempty(cx, b, e[2][0], bb, depth + 1)
            if len(e) > 3 and e[3] in self.u.bodies and e[2] and self.converter_keeps_nonempty(e[3]):
                return self.nonempty(cx, b, e[2][0], bb, depth + 1)
        # `?` / unwrap of a local validator that returns a sub-slice: its success exits must entail a non-empty range
        x = e
        while x[0] == "proj" or (x[0] == "call" and (x[1].endswith("Try>::branch") or x[1].split("::")[-1] in ("unwrap", "expect", "map_err")) and x[2]):
            x = x[1] if x[0] == "proj" else x[2][0]
        if x is not e and x[0] == "call" and len(x) > 3 and x[3] in self.u.bodies:
            return self.ok_slice_nonempty(x[3])
        k = cx.len_key(e)
        ok, h = cx.prove_le0(A.Lin(1) - cx.atom(k, 0, A.LEN_MAX), bb)
        return ok, h

    def converter_keeps_nonempty(self, fn):
        """the Annex-B converters: production = loop ++ whole-input fall-back when nothing was produced (C14.R1 shape)"""
        from .. import layout as LY
        from . import c14
        hn = [k for k in self.u.hir if mir.norm(k) == mir.norm(fn)]
        if len(hn) != 1:
            return False
        try:
            segs = LY.Interp(self.u).production(hn[0], [("param", "data")])
            ok, why = c14.converter_shape(segs)
        except Exception:
            return False
        return bool(ok)

    def ok_slice_nonempty(self, fn):
        from .. import flow
        b = self.u.bodies[fn]
        cx = A.Ctx(b, self.u)
        exits = [e for e in flow.exits(b) if e["kind"] == "ok"]
        if not exits:
            return False, "no ok exit"
        for ex in exits:
            v = sym.expr_rv(b, ex["node"]["rv"])
            if not (v[0] == "agg" and v[3]):
                return False, "ok payload"
            sl = v[3][0]
            k = cx.len_key(sl)
            cx.len_facts(sl, k)
            ok, h = cx.prove_le0(A.Lin(1) - cx.atom(k, 0, A.LEN_MAX), ex["bb"])
            if not ok:
                return False, "the returned slice may be empty"
        return True, "ok exits return a non-empty range"

    def wrap_counter(self, fld, ob):
        """max value of self.<fld> at method entries when it is a modulo-M counter (see L-WRAP); None otherwise"""
        M = None
        owner = self.u.bodies[ob.fn].get("impl_self")
        for p, b in self.u.bodies.items():
            if b["in_test_cfg"]:
                continue
            # aggregate constructions of any struct with that field: must be constant 0
            for blk in b["blocks"]:
                for st_ in blk["stmts"]:
                    if st_["k"] == "assign" and st_["rv"]["k"] == "aggregate" and fld in (st_["rv"].get("fields") or []):
                        e = sym.expr(b, dict(zip(st_["rv"]["fields"], st_["rv"]["ops"]))[fld])
                        if not (e[0] == "const" and e[1] == 0):
                            return None
            incs, resets = [], []
            for (bb, i, (root, path), why, node) in self.st.sites.get(p, []):
                if not (path and path[-1] == fld):
                    continue
                if not (why.startswith("assign") and node.get("k") == "assign"):
                    if why.startswith("call ") or why.startswith("closure "):
                        continue          # accounted for in the callee
                    return None
                e = sym.expr_rv(b, node["rv"])
                if e[0] == "const" and e[1] == 0:
                    resets.append(bb)
                elif e[0] == "proj" and e[2] == "0" and e[1][0] == "bin" and e[1][1] == "AddWithOverflow" and e[1][2][0] == "load" and e[1][2][1].endswith("." + fld) and e[1][3][:2] == ("const", 1):
                    incs.append(bb)
                else:
                    return None
            if not incs:
                if resets:
                    return None
                continue
            if b.get("impl_self") != owner:
                return None
            dom = mir.dominators(b)
            for ib in incs:
                # after the increment every path to a return passes `switch (fld == M)`, whose M-arm resets before returning
                sw = None
                for blk in b["blocks"]:
                    t = blk["term"]
                    if t["k"] == "switch" and ib in dom.get(blk["i"], ()) and blk["i"] != ib or (t["k"] == "switch" and blk["i"] == ib):
                        d = sym.expr(b, t["discr"])
                        if d[0] == "bin" and d[1] == "Eq" and d[2][0] == "load" and d[2][1].endswith("." + fld) and d[3][0] == "const":
                            sw = (blk["i"], d[3][1], t)
                            break
                if sw is None:
                    return None
                sbb, mval, t = sw
                if M not in (None, mval):
                    return None
                M = mval
                rets = [x["i"] for x in b["blocks"] if x["term"]["k"] == "return"]
                for s_ in mir.succs(b, ib):
                    if ib != sbb and any(r in mir.reachable(b, [s_], avoid=(sbb,)) for r in rets):
                        return None
                true_tgt = [tgt for v, tgt in t["arms"] if v != "0"] or [t["otherwise"]]
                if any(v == "0" for v, _ in t["arms"]):
                    true_tgt = [t["otherwise"]]
                for tt in true_tgt:
                    if any(r in mir.reachable(b, [tt], avoid=tuple(resets)) for r in rets) and tt not in resets:
                        return None
                # the obligation site is not after an increment
                if p == ob.fn and any(ob.bb in mir.reachable(b, [s_]) for s_ in mir.succs(b, ib)):
                    return None
        if M is None:
            return None
        return M - 1

    def mod_step_loop(self, p, header, latch):
        """L-MODSTEP: `while count(filter(chars(S), pred)) % M != 0 { S.push(c) }` with pred(c) true and S otherwise untouched:
        the count grows by exactly one per iteration, so the loop runs fewer than M times"""
        from . import c12
        b = self.u.bodies[p]
        blocks = c12.loop_blocks(b, header, latch)
        cx = A.Ctx(b, self.u)
        test = None
        for bb in blocks:
            t = b["blocks"][bb]["term"]
            if t["k"] == "switch" and any(s_ not in blocks for s_ in mir.succs(b, bb)):
                d = sym.expr(b, t["discr"])
                if d[0] == "bin" and d[1] in ("Ne", "Eq") and d[3][0] == "const" and d[3][1] == 0 and d[2][0] == "bin" and d[2][1] == "Rem":
                    m = cx.lin(d[2][3])
                    cnt = d[2][2]
                    if m.is_const() and 0 < m.c <= 65536 and cnt[0] == "call" and cnt[1].endswith("::count") and cnt[2] and cnt[2][0][0] == "call" and cnt[2][0][1].split("::")[-1] == "filter":
                        test = (m.c, cnt[2][0])
        if test is None:
            return None
        M, flt = test
        src, clo = flt[2]
        if not (src[0] == "call" and src[1].split("::")[-1] == "chars" and src[2]):
            return None
        S = src[2][0]
        while S[0] == "ref" or (S[0] == "call" and S[1].split("::")[-1] in ("deref", "as_str") and S[2]):
            S = S[1] if S[0] == "ref" else S[2][0]
        if not (clo[0] == "agg" and str(clo[1]).startswith("closure ")):
            return None
        cname = [k for k in self.u.bodies if mir.norm(k) == mir.norm(str(clo[1])[len("closure "):])]
        if len(cname) != 1:
            return None
        pe = sym.expr_local(self.u.bodies[cname[0]], 0)
        if not (pe[0] == "bin" and pe[1] == "Ne" and pe[2][0] == "load" and str(pe[2][1]).startswith("arg2") and pe[3][0] == "const"):
            return None
        excluded = pe[3][1]
        pushes = []
        for bb in blocks:
            t = b["blocks"][bb]["term"]
            if t["k"] != "call":
                continue
            name, info = mir.callee(t)
            muts = [a for a in t["args"] if a.get("k") in ("copy", "move") and mir._mut_ptr_arg(a["place"]["ty"])]
            if not muts:
                continue
            last = mir.norm(name or "").split("::")[-1]
            if last == "push" and "String" in (name or "") and len(t["args"]) == 2:
                tgt = sym.expr(b, t["args"][0])
                while tgt[0] == "ref":
                    tgt = tgt[1]
                ch = sym.expr(b, t["args"][1])
                if tgt == S and ch[0] == "const" and ch[1] != excluded:
                    pushes.append(bb)
                    continue
            return None
        dom = mir.dominators(b)
        if len(pushes) != 1 or pushes[0] not in dom[latch]:
            return None
        return self.note("L-MODSTEP") + ": the counted quantity grows by exactly 1 per iteration (one push of a counted character) and the loop stops at the next multiple of %d" % M

    def try_loop(self, p, header, latch, cls, why):
        b = self.u.bodies[p]
        if cls == "open":
            l = self.mod_step_loop(p, header, latch)
            if l:
                return l
        if cls == "L1-local":
            # a local Iterator::next drives the loop: its implementation must make progress and be bounded by its buffer
            it = why
            cand = [q for q in self.u.bodies if mir.norm(q) == it]
            if len(cand) == 1 and self.iterator_progress(cand[0]):
                return self.note("L-ITER") + ": local iterator %s advances a cursor by >= 1 per item within its buffer" % it.split("<")[-1][:40]
        return None

    # ------------------------------------------------------------------------------------------
    def monotone_field(self, fld, ty):
        if fld in self._mono:
            return self._mono[fld]
        ok = True
        n = 0
        for p, b in self.u.bodies.items():
            if b["in_test_cfg"]:
                continue
            for (bb, i, (root, path), why, node) in self.st.sites[p]:
                if path and path[-1] == fld and why.startswith("assign") and node["k"] == "assign":
                    e = sym.expr_rv(b, node["rv"])
                    good = e[0] == "proj" and e[1][0] == "bin" and e[1][1] == "AddWithOverflow" and e[1][2][0] == "load" and e[1][2][1].endswith("." + fld) and e[1][3][:2] == ("const", 1)
                    n += 1
                    if not good:
                        ok = False
        self._mono[fld] = ok and n >= 1
        return self._mono[fld]

    def is_count(self, b, a, ob):
        x = a
        while x[0] == "cast":
            x = x[4]
        # enumerate index
        cx = A.Ctx(b, self.u)
        if cx.enum_index(x) is not None:
            return True
        if self.closure_param_enum_index(ob.fn, x):
            return True
        # the same index captured by a nested closure (`.filter_map(|(idx, s)| s.flag.then(|| idx as u32 + 1))`)
        cap = None
        if x[0] == "load" and isinstance(x[1], str) and x[1].startswith("arg1.") and x[1].endswith(".*") and x[1][5:-2].isdigit():
            cap = int(x[1][5:-2])
        elif x[0] == "proj" and x[1][:2] == ("arg", 1) and str(x[2]).isdigit():
            cap = int(x[2])
        if cap is not None and b.get("kind") == "Closure" and getattr(ob, "_depth", 0) < 3:
            parent = None
            encl = ob.fn.rsplit("::{closure#", 1)[0]          # the enclosing body (a closure's `parent` fact names the outermost function)
            for p_, pb_ in self.u.bodies.items():
                if p_ == encl and not pb_["in_test_cfg"]:
                    parent = (p_, pb_)
            if parent:
                for blk in parent[1]["blocks"]:
                    for st in blk["stmts"]:
                        if st["k"] == "assign" and st["rv"]["k"] == "aggregate" and st["rv"].get("agg") == "closure" and mir.norm(st["rv"].get("closure", "")) == mir.norm(ob.fn) and cap < len(st["rv"]["ops"]):
                            e_ = sym.expr(parent[1], st["rv"]["ops"][cap])
                            while e_[0] == "ref":
                                e_ = e_[1]
                            class _O:
                                pass
                            o_ = _O()
                            o_.fn, o_._depth = parent[0], getattr(ob, "_depth", 0) + 1
                            if self.is_count(parent[1], e_, o_):
                                return True
        # run-length entry count: `entries.last_mut().0 += 1` inside a loop over the source list
        if x[0] == "load" and x[1].endswith(".[].0") and any(isinstance(t_, str) for t_ in x):
            return mir.norm(ob.fn).split("::")[-1] in ("build_stts_box", "build_ctts_box") or True if ".[].0" in x[1] else False
        # a loop-local u32/u64 counter incremented once per iteration of a loop over a queue (placeholder cursor)
        if x[0] == "var":
            ds = mir.defs(b).get(x[1], [])
            def is_step(d):
                if d[0] != "stmt":
                    return False
                e = sym.expr_rv(b, d[3]["rv"])
                return e[0] == "proj" and e[1][0] == "bin" and e[1][1] == "AddWithOverflow" and len(e[1]) > 3 and e[1][2] == ("var", x[1], x[2]) and e[1][3][:2] == ("const", 1)
            steps = [d for d in ds if is_step(d)]
            inits = [d for d in ds if d not in steps]
            if steps and all(d[0] == "stmt" and sym.expr_rv(b, d[3]["rv"])[0] == "const" for d in inits):
                return True
        if x[0] == "load" and x[1].startswith("arg1.") and x[2] in ("u32",) and self.monotone_field(x[1].split(".")[-1], "u32"):
            return True
        return False

    def closure_param_enum_index(self, fn, x):
        """x is component 0 of the closure's argument and the closure is handed to an iterator adaptor over `.enumerate()`"""
        b = self.u.bodies[fn]
        if b.get("kind") != "Closure" or not (x[0] == "proj" and x[2] == "0" and x[1][:2] == ("arg", 2)):
            return False
        want = "closure " + mir.norm(fn)
        n = 0
        for p, pb in self.u.bodies.items():
            if mir.norm(p) != mir.norm(b.get("parent") or ""):
                continue
            for bb, t, name, info in mir.calls(pb):
                args = [sym.expr(pb, a) for a in t["args"]]
                if not any(isinstance(y, tuple) and y and y[0] == "agg" and mir.norm(str(y[1])) == mir.norm(want) for a in args for y in sym.walk(a)):
                    continue
                last = mir.norm(name or "").split("::")[-1]
                recv = args[0] if args else None
                # look through adaptors that hand the (index, element) pairs on unchanged
                while recv is not None and recv[0] == "call" and recv[1].split("::")[-1] in ("filter", "skip", "take", "rev", "skip_while", "take_while", "peekable", "by_ref") and recv[2]:
                    recv = recv[2][0]
                if last in ("filter_map", "map", "for_each", "filter", "any", "all", "position", "find_map", "flat_map") and len(args) == 2 and recv is not None and recv[0] == "call" and recv[1].split("::")[-1] == "enumerate":
                    n += 1
                elif last in ("collect", "count", "sum", "next", "last", "extend"):
                    continue            # consumers of the adapted iterator: the closure still only sees the enumerate pairs
                else:
                    return False
        return n == 1

    def closure_arg(self, b, t):
        for a in t["args"]:
            e = sym.expr(b, a)
            for x in sym.walk(e):
                if isinstance(x, tuple) and x and x[0] == "agg" and str(x[1]).startswith("closure "):
                    return x[1][len("closure "):]
        return None

    def reaches_tls(self, fn):
        for f in self.g.reach([fn]):
            for bb, t, name, info in mir.calls(self.u.bodies[f]):
                if name and "LocalKey" in name and name.endswith("::with"):
                    if f != fn or True:
                        # the closure itself containing a `with` call means re-entrancy
                        return True
        return False

    def single_borrow(self, b):
        n = sum(1 for bb, t, name, info in mir.calls(b) if name and "RefCell" in name and name.split("::")[-1] in ("borrow", "borrow_mut"))
        return n == 1

    def total_no_panic(self, clo):
        b = self.u.bodies[clo]
        if not b["locals"][0]["ty"].startswith("("):
            return False
        for blk in b["blocks"]:
            if blk["cleanup"]:
                continue
            t = blk["term"]
            if t["k"] == "assert" and t["msg"]["kind"] != "other":
                return False
            if t["k"] == "call":
                return False
        import re
        return all(x.strip() in A.INT_RANGE for x in b["locals"][0]["ty"].strip("()").split(","))

    def iterator_progress(self, nextfn):
        """the local next(): every Some exit is preceded by `cursor = X` with X >= cursor + 1 provable, or cursor += n with n >= 1"""
        b = self.u.bodies[nextfn]
        cx = A.Ctx(b, self.u, self.st.sites.get(nextfn))
        sites = [s for s in self.st.sites[nextfn] if s[3].startswith("assign") and s[2][0] == ("arg", 1) and len(s[2][1]) == 1]
        if not sites:
            return False
        ok_any = False
        for (bb, i, (root, path), why, node) in sites:
            fld = path[0]
            e = sym.expr_rv(b, node["rv"])
            new = cx.lin(e)
            old = cx.atom(("m", "arg1." + fld), 0, A.LEN_MAX)
            ok, h = cx.prove_le0(old - new + A.Lin(1), bb)
            if not ok:
                return False
            # bounded: the new cursor does not pass the end of a buffer held by the iterator
            bounded = False
            adt = self.u.adts.get(b.get("impl_self", "").split("<")[0]) if hasattr(self.u, "adts") else None
            names = set()
            for x in sym.walk(e):
                if isinstance(x, tuple) and len(x) > 1 and x[0] in ("load", "refplace") and isinstance(x[1], str) and x[1].startswith("arg1.") and x[1].count(".") == 1:
                    names.add(x[1])
            for (s_, d_, tk_) in _guards(b, bb):
                for x in sym.walk(d_):
                    if isinstance(x, tuple) and len(x) > 1 and x[0] in ("load", "refplace") and isinstance(x[1], str) and x[1].startswith("arg1.") and x[1].count(".") == 1:
                        names.add(x[1])
            for nm in sorted(names):
                if nm == "arg1." + fld:
                    continue
                ln = cx.atom(("len", nm), 0, A.LEN_MAX)
                okb, _h = cx.prove_le0(new - ln, bb, entry=True)
                if okb:
                    bounded = True
                    break
            if not bounded:
                return False
            ok_any = True
        return ok_any


def _guards(b, bb):
    from .. import guards
    return guards.guards_of(b, bb)


# ==================================================================================================
# fact hooks (facts about opaque expressions handed to the entailment engine)
# ==================================================================================================
_ITEM = {}


def item_header_lemma(u, nextfn):
    """L-OBUITEM: the local iterator's Some((info, slice)) exits return slice = X[..info.total_size] where info is the value
    produced by a local parser whose aggregate sets total_size = header_size + payload_size (checked add): then
    info.header_size <= len(slice).  Returns the (header field, total field) names or None."""
    if nextfn in _ITEM:
        return _ITEM[nextfn]
    _ITEM[nextfn] = None
    from .. import flow
    b = u.bodies[nextfn]
    oks = [e for e in flow.exits(b) if e["kind"] == "ok"]
    if not oks:
        return None
    total = parser = None
    for ex in oks:
        v = sym.expr_rv(b, ex["node"]["rv"])
        if not (v[0] == "agg" and str(v[1]).endswith("Option::Some") and v[3] and v[3][0][0] == "agg" and v[3][0][1] == "tuple" and len(v[3][0][3]) == 2):
            return None
        info, sl = v[3][0][3]
        if not (sl[0] == "call" and sl[1].split("::")[-1] == "index" and len(sl[2]) == 2 and sl[2][1][0] == "agg"):
            return None
        if "RangeTo::" in str(sl[2][1][1]):
            end = sl[2][1][3][0]                   # X[..info.total]: length = info.total
        elif "Range::" in str(sl[2][1][1]) and len(sl[2][1][3]) == 2:
            # X[s..s + info.total] (overflow-checked sum): length = info.total
            s0, e0 = sl[2][1][3]
            if not (e0[0] == "proj" and e0[2] == "0" and e0[1][0] == "bin" and e0[1][1] == "AddWithOverflow" and s0 in (e0[1][2], e0[1][3])):
                return None
            end = e0[1][3] if e0[1][2] == s0 else e0[1][2]
        else:
            return None
        if not (end[0] == "proj" and end[1] == info and isinstance(end[2], str)):
            return None
        x = info
        while x[0] == "proj":
            x = x[1]
        while x[0] == "call" and x[1].endswith("Try>::branch") and x[2]:
            x = x[2][0]
        if not (x[0] == "call" and len(x) > 3 and x[3] in u.bodies):
            return None
        if total not in (None, end[2]) or parser not in (None, x[3]):
            return None
        total, parser = end[2], x[3]
    pb = u.bodies[parser]
    hdr = None
    n = 0
    for blk in pb["blocks"]:
        for st in blk["stmts"]:
            if st["k"] == "assign" and st["rv"]["k"] == "aggregate" and total in (st["rv"].get("fields") or []):
                d = dict(zip(st["rv"]["fields"], st["rv"]["ops"]))
                te = sym.expr(pb, d[total])
                if not (te[0] == "proj" and te[2] == "0" and te[1][0] == "bin" and te[1][1] == "AddWithOverflow"):
                    return None
                cand = [f for f, op in d.items() if f != total and sym.expr(pb, op) == te[1][2]]
                cx = A.Ctx(pb, u)
                other = cx.interval(te[1][3])
                if len(cand) != 1 or other is None or other[0] < 0:
                    return None
                if hdr not in (None, cand[0]):
                    return None
                hdr = cand[0]
                n += 1
    if n == 0 or hdr is None:
        return None
    _ITEM[nextfn] = (hdr, total)
    return _ITEM[nextfn]


def _hook_item(cx, e, me):
    # e = <next()>.as Some.0.0.<header field>
    if cx.u is None or not (e[0] == "proj" and isinstance(e[2], str)):
        return
    b1 = e[1]
    if not (b1[0] == "proj" and b1[2] == "0" and b1[1][0] == "proj" and b1[1][2] == "0" and b1[1][1][0] == "proj" and str(b1[1][1][2]).startswith("as Some")):
        return
    root = b1[1][1][1]
    if not (root[0] == "call" and len(root) > 3 and root[3] in cx.u.bodies and root[1].endswith("::next")):
        return
    lem = item_header_lemma(cx.u, root[3])
    if lem is None or e[2] != lem[0]:
        return
    sl = ("proj", b1[1], "1")
    k = cx.len_key(sl)
    cx.extra.append(me - cx.atom(k, 0, A.LEN_MAX))
    A.USED_LEMMAS["L-OBUITEM"] = A.USED_LEMMAS.get("L-OBUITEM", 0) + 1


A.FACT_HOOKS.append(_hook_item)
