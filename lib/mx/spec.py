"""Transcriptions of the fixed layouts prescribed by ISO/IEC 14496-12 (ISO BMFF), -14 (esds), -15 (avcC, hvcC),
the AV1-ISOBMFF, VP9-ISOBMFF and Opus-in-ISOBMFF bindings, for the boxes/records muxide emits.

A layout is a list of fields (width_in_bytes, kind, arg, name):
   const   arg = expected bytes            zero   all-zero bytes         any    unconstrained
   val     arg = predicate over the derived expression (the field must be ONE big-endian integer / byte segment of exactly this width, or constant)
   mask    arg = (mask, value): constant byte(s) b with b & mask == value; or a non-constant expression accepted by arg[2] if given
After the fixed part, `tail` says what may follow: None (nothing), 'boxes' (child boxes only), 'any', or a callable.
"""

IDENTITY_MATRIX = (b"\x00\x01\x00\x00" + b"\x00" * 12 + b"\x00\x01\x00\x00" + b"\x00" * 12 + b"\x40\x00\x00\x00")


def mentions_field(name):
    def pred(e):
        from .layout import field_names
        return name in field_names(e)
    pred.__name__ = "value-of(%s)" % name
    return pred


def shl16_of(name):
    def pred(e):
        # (X.name << 16) as a 16.16 fixed-point number
        return isinstance(e, tuple) and e[0] == "bin" and e[1] == "Shl" and e[3] == ("lit", 16) and mentions_field(name)(e[2])
    pred.__name__ = "16.16(%s)" % name
    return pred


def u16_of(name):
    def pred(e):
        x = e
        while isinstance(x, tuple) and x[0] == "cast":
            x = x[2]
        return isinstance(x, tuple) and x[0] == "field" and x[2] == name
    pred.__name__ = "u16(%s)" % name
    return pred


def anyexpr(e):
    return True


def nonzero_const(e):
    return isinstance(e, tuple) and e[0] == "lit" and e[1] != 0


def lit_eq(v):
    def pred(e):
        return e == ("lit", v)
    pred.__name__ = "== %d" % v
    return pred


def param_or_field(e):
    return isinstance(e, tuple) and e[0] in ("param", "field", "cast", "call", "mcall", "bin")


VF0 = (4, "const", b"\x00\x00\x00\x00", "version=0 flags=0")

# ------------------------------------------------------------------------------ ISO/IEC 14496-12
MVHD = {"size": 100, "fields": [
    VF0,
    (4, "any", None, "creation_time"), (4, "any", None, "modification_time"),
    (4, "val", "timescale", "timescale"),
    (4, "any", None, "duration"),
    (4, "const", b"\x00\x01\x00\x00", "rate=1.0"), (2, "const", b"\x01\x00", "volume=1.0"),
    (2, "zero", None, "reserved"), (8, "zero", None, "reserved[2]"),
    (36, "const", IDENTITY_MATRIX, "matrix=identity"),
    (24, "zero", None, "pre_defined[6]"),
    (4, "val", "next_track_id", "next_track_ID"),
], "tail": None}

TKHD = {"size": 84, "fields": [
    (1, "const", b"\x00", "version=0"),
    (3, "mask", (b"\x00\x00\x01", b"\x00\x00\x01"), "flags: track_enabled set"),
    (4, "any", None, "creation_time"), (4, "any", None, "modification_time"),
    (4, "val", "track_id", "track_ID"),
    (4, "zero", None, "reserved"),
    (4, "any", None, "duration"),
    (8, "zero", None, "reserved[2]"),
    (2, "zero", None, "layer"), (2, "zero", None, "alternate_group"),
    (2, "val", "volume", "volume"), (2, "zero", None, "reserved"),
    (36, "const", IDENTITY_MATRIX, "matrix=identity"),
    (4, "val", "width16", "width 16.16"), (4, "val", "height16", "height 16.16"),
], "tail": None}

MDHD = {"size": 24, "fields": [
    VF0, (4, "any", None, "creation_time"), (4, "any", None, "modification_time"),
    (4, "val", "media_timescale", "timescale"),
    (4, "any", None, "duration"),
    (2, "val", "language", "pad+language[3x5]"),
    (2, "zero", None, "pre_defined"),
], "tail": None}

HDLR = {"size": None, "fields": [
    VF0, (4, "zero", None, "pre_defined"),
    (4, "val", "handler_type", "handler_type"),
    (12, "val", "hdlr_reserved", "reserved[3]"),
], "tail": "cstring"}

VMHD = {"size": 12, "fields": [
    (1, "const", b"\x00", "version=0"), (3, "const", b"\x00\x00\x01", "flags=1"),
    (2, "zero", None, "graphicsmode=copy"), (6, "zero", None, "opcolor"),
], "tail": None}

SMHD = {"size": 8, "fields": [VF0, (2, "zero", None, "balance"), (2, "zero", None, "reserved")], "tail": None}
DREF = {"size": None, "fields": [VF0, (4, "const", b"\x00\x00\x00\x01", "entry_count=1")], "tail": "boxes"}
URL = {"size": 4, "fields": [(1, "const", b"\x00", "version=0"), (3, "const", b"\x00\x00\x01", "flags=self-contained")], "tail": None}
STSD = {"size": None, "fields": [VF0, (4, "const", b"\x00\x00\x00\x01", "entry_count=1")], "tail": "boxes"}
TREX = {"size": 24, "fields": [
    VF0, (4, "val", "track_id", "track_ID"), (4, "const", b"\x00\x00\x00\x01", "default_sample_description_index=1"),
    (4, "any", None, "default_sample_duration"), (4, "any", None, "default_sample_size"), (4, "any", None, "default_sample_flags"),
], "tail": None}
MFHD = {"size": 8, "fields": [VF0, (4, "val", "sequence_number", "sequence_number")], "tail": None}
TFDT = {"size": 12, "fields": [(1, "const", b"\x01", "version=1"), (3, "zero", None, "flags=0"), (8, "val", "base_media_decode_time", "baseMediaDecodeTime")], "tail": None}
META = {"size": None, "fields": [VF0], "tail": "boxes"}

VISUAL_SAMPLE_ENTRY = {"size": None, "fields": [
    (6, "zero", None, "reserved"), (2, "const", b"\x00\x01", "data_reference_index=1"),
    (2, "zero", None, "pre_defined"), (2, "zero", None, "reserved"), (12, "zero", None, "pre_defined[3]"),
    (2, "val", "width_u16", "width"), (2, "val", "height_u16", "height"),
    (4, "const", b"\x00\x48\x00\x00", "horizresolution=72dpi"), (4, "const", b"\x00\x48\x00\x00", "vertresolution=72dpi"),
    (4, "zero", None, "reserved"), (2, "const", b"\x00\x01", "frame_count=1"),
    (32, "any", None, "compressorname"), (2, "const", b"\x00\x18", "depth=0x0018"), (2, "const", b"\xff\xff", "pre_defined=-1"),
], "tail": "boxes"}

AUDIO_SAMPLE_ENTRY = {"size": None, "fields": [
    (6, "zero", None, "reserved"), (2, "const", b"\x00\x01", "data_reference_index=1"),
    (8, "zero", None, "reserved[2]"),
    (2, "val", "channels", "channelcount"), (2, "const", b"\x00\x10", "samplesize=16"),
    (2, "zero", None, "pre_defined"), (2, "zero", None, "reserved"),
    (4, "val", "samplerate16", "samplerate 16.16"),
], "tail": "boxes"}

# ------------------------------------------------------------------------------ ISO/IEC 14496-15
AVCC = {"size": None, "fields": [
    (1, "const", b"\x01", "configurationVersion=1"),
    (1, "any", None, "AVCProfileIndication"), (1, "any", None, "profile_compatibility"), (1, "any", None, "AVCLevelIndication"),
    (1, "const", b"\xff", "reserved(6)=1 lengthSizeMinusOne=3"),
    (1, "const", b"\xe1", "reserved(3)=1 numOfSequenceParameterSets=1"),
], "tail": "avcc_sets"}

HVCC = {"size": None, "fields": [
    (1, "const", b"\x01", "configurationVersion=1"),
    (1, "any", None, "profile_space/tier/profile_idc"),
    (4, "any", None, "general_profile_compatibility_flags"), (6, "any", None, "general_constraint_indicator_flags"),
    (1, "any", None, "general_level_idc"),
    (2, "mask", (b"\xf0\x00", b"\xf0\x00"), "reserved(4)=1111 + min_spatial_segmentation_idc"),
    (1, "mask", (b"\xfc", b"\xfc"), "reserved(6)=111111 + parallelismType"),
    (1, "mask", (b"\xfc", b"\xfc"), "reserved(6)=111111 + chromaFormat"),
    (1, "mask", (b"\xf8", b"\xf8"), "reserved(5)=11111 + bitDepthLumaMinus8"),
    (1, "mask", (b"\xf8", b"\xf8"), "reserved(5)=11111 + bitDepthChromaMinus8"),
    (2, "any", None, "avgFrameRate"),
    (1, "mask", (b"\x03", b"\x03"), "lengthSizeMinusOne=3"),
    (1, "val", "num_arrays", "numOfArrays"),
], "tail": "hvcc_arrays"}

# ------------------------------------------------------------------------------ AV1 / VP9 / Opus bindings, 14496-14
AV1C = {"size": None, "fields": [
    (1, "const", b"\x81", "marker=1 version=1"),
    (1, "any", None, "seq_profile(3) seq_level_idx_0(5)"),
    (1, "any", None, "tier/bitdepth/mono/subsampling/position"),
    (1, "pred", (lambda bs: (bs[0] & 0xE0) == 0 and ((bs[0] & 0x10) != 0 or (bs[0] & 0x0F) == 0),
                 "reserved(3) = 0; when initial_presentation_delay_present (0x10) is 0 the low four bits are reserved = 0"),
     "reserved(3)=0 + initial_presentation_delay_present(1) + delay_minus_one(4) | reserved(4)=0"),
], "tail": "blob:sequence_header"}

VPCC = {"size": 12, "fields": [
    (1, "const", b"\x01", "version=1"), (3, "zero", None, "flags=0"),
    (1, "val", "vp9.profile", "profile"), (1, "val", "vp9.level", "level"),
    (1, "any", None, "bitDepth(4) chromaSubsampling(3) videoFullRangeFlag(1)"),
    (1, "any", None, "colourPrimaries"), (1, "any", None, "transferCharacteristics"), (1, "any", None, "matrixCoefficients"),
    (2, "zero", None, "codecInitializationDataSize=0"),
], "tail": None}

DOPS = {"size": None, "fields": [
    (1, "val", "dops_version0", "Version=0"), (1, "val", "dops_channels", "OutputChannelCount"),
    (2, "any", None, "PreSkip"), (4, "any", None, "InputSampleRate"), (2, "any", None, "OutputGain"),
    (1, "any", None, "ChannelMappingFamily"),
], "tail": "any"}

FTYP = {"size": None, "fields": [(4, "val", "brand", "major_brand"), (4, "any", None, "minor_version")], "tail": "brands"}

FIXED = {
    b"ftyp": FTYP, b"mvhd": MVHD, b"tkhd": TKHD, b"mdhd": MDHD, b"hdlr": HDLR, b"vmhd": VMHD, b"smhd": SMHD, b"dref": DREF, b"url ": URL,
    b"stsd": STSD, b"trex": TREX, b"mfhd": MFHD, b"tfdt": TFDT, b"meta": META,
    b"avc1": VISUAL_SAMPLE_ENTRY, b"hvc1": VISUAL_SAMPLE_ENTRY, b"av01": VISUAL_SAMPLE_ENTRY, b"vp09": VISUAL_SAMPLE_ENTRY,
    b"mp4a": AUDIO_SAMPLE_ENTRY, b"Opus": AUDIO_SAMPLE_ENTRY,
    b"avcC": AVCC, b"hvcC": HVCC, b"av1C": AV1C, b"vpcC": VPCC, b"dOps": DOPS,
}

# containers: payload must consist of child boxes only (after the fixed prefix given in FIXED, if any)
CONTAINERS = {b"moov", b"trak", b"mdia", b"minf", b"dinf", b"stbl", b"mvex", b"moof", b"traf", b"udta", b"ilst", b"edts"}

# containment schema: parent -> {child: (min, max)}; max None = unbounded.  'one-of' groups are listed separately.
SCHEMA = {
    b"moov": {b"mvhd": (1, 1), b"trak": (1, None), b"mvex": (0, 1), b"udta": (0, 1)},
    b"trak": {b"tkhd": (1, 1), b"mdia": (1, 1), b"edts": (0, 1)},
    b"mdia": {b"mdhd": (1, 1), b"hdlr": (1, 1), b"minf": (1, 1)},
    b"minf": {b"vmhd": (0, 1), b"smhd": (0, 1), b"dinf": (1, 1), b"stbl": (1, 1)},
    b"dinf": {b"dref": (1, 1)},
    b"dref": {b"url ": (1, 1)},
    b"stbl": {b"stsd": (1, 1), b"stts": (1, 1), b"ctts": (0, 1), b"stsc": (1, 1), b"stsz": (1, 1), b"stco": (1, 1), b"stss": (0, 1)},
    b"stsd": {b"avc1": (0, 1), b"hvc1": (0, 1), b"av01": (0, 1), b"vp09": (0, 1), b"mp4a": (0, 1), b"Opus": (0, 1)},
    b"avc1": {b"avcC": (1, 1)}, b"hvc1": {b"hvcC": (1, 1)}, b"av01": {b"av1C": (1, 1)}, b"vp09": {b"vpcC": (1, 1)},
    b"mp4a": {b"esds": (1, 1)}, b"Opus": {b"dOps": (1, 1)},
    b"mvex": {b"trex": (1, None)},
    b"moof": {b"mfhd": (1, 1), b"traf": (1, None)},
    b"traf": {b"tfhd": (1, 1), b"tfdt": (0, 1), b"trun": (1, None)},
    b"udta": {b"meta": (1, 1)},
    b"meta": {b"hdlr": (1, 1), b"ilst": (1, 1)},
    b"ilst": {b"\xa9nam": (0, 1), b"\xa9day": (0, 1)},
    b"\xa9nam": {b"data": (1, 1)}, b"\xa9day": {b"data": (1, 1)},
}
ONE_OF = {b"minf": [{b"vmhd", b"smhd"}], b"stsd": [{b"avc1", b"hvc1", b"av01", b"vp09", b"mp4a", b"Opus"}]}
