"""Backward data-dependence slices over MIR def chains, rendered as expression trees.

expr(body, operand) follows single-definition temporaries (at -Zmir-opt-level=0 every compiler
temporary is assigned exactly once) and stops at parameters, multi-definition user variables
(`('var', ..)`), loads from memory (`('load', targets)`) and call results (`('call', name, args)`).
"""
from . import mir

MAXD = 120


def targets_str(body, place):
    ts = sorted(mir.path_str(r, p) for (r, p) in mir.place_targets(body, place))
    return "|".join(ts)


def _note_ty(body, e, ty):
    """side table: type of an expression node (used by the abstract interpreter for range bounds)"""
    if ty and isinstance(e, tuple):
        try:
            body.setdefault("_ety", {})[e] = ty
        except TypeError:
            pass
    return e


def _freeze(x):
    if isinstance(x, (list, tuple)):
        return tuple(_freeze(i) for i in x)
    return x


def expr_place(body, place, depth=0, stop=()):
    return _note_ty(body, _expr_place(body, place, depth, stop), place.get("ty"))


def _expr_place(body, place, depth=0, stop=()):
    if depth > MAXD:
        return ("deep",)
    l = place["l"]
    proj = place["p"]
    if not proj:
        return expr_local(body, l, depth, stop)
    if any(e["k"] == "deref" for e in proj):
        pv = _promoted_value(body, l)
        if pv is not None and len(proj) == 1:
            return pv
        tg = mir.place_targets(body, place)
        if len(tg) == 1:
            (r, pth), = tg
            if r[0] == "local" and not pth and r[1] != l and depth < MAXD:
                return expr_local(body, r[1], depth + 1, stop)
            if r[0] == "local" and pth and r[1] != l and depth < MAXD and r[1] not in stop and not (1 <= r[1] <= body["argc"]) \
                    and len(mir.defs(body).get(r[1], [])) == 1 and not mir.partial_defs(body).get(r[1]) \
                    and all(isinstance(c, str) and c not in ("[]", "*", "?") for c in pth):
                # a reference into a component of a single-definition local (e.g. a `ref` binding of a match on a call result):
                # the value is that component of the local's value
                base = expr_local(body, r[1], depth + 1, stop)
                if base[0] != "var":
                    for c in pth:
                        base = ("proj", base, c)
                    return base
        idx = []
        # a reference local made by `&base[i]`: the element it points to keeps that index
        if proj and proj[0]["k"] == "deref" and not (1 <= l <= body["argc"]):
            ds_ = mir.defs(body).get(l, [])
            if len(ds_) == 1 and ds_[0][0] == "stmt" and ds_[0][3]["rv"].get("k") in ("ref", "addrof") and not mir.partial_defs(body).get(l):
                for pe in ds_[0][3]["rv"].get("place", {}).get("p", []):
                    if pe["k"] == "index":
                        idx.append(_freeze(expr_local(body, pe["local"], depth + 1, stop)))
        for pe in proj:
            if pe["k"] == "index":
                ie = expr_local(body, pe["local"], depth + 1, stop)
                idx.append(_freeze(ie))
            elif pe["k"] == "cindex":
                idx.append(("const", pe.get("offset", pe.get("i")), "usize") if not pe.get("from_end") else ("fromend", pe.get("offset")))
        path_ = targets_str(body, place)
        # a reference captured *by value* in a closure environment (`_9 = copy _1.<i>; *_9`): the coarse pointer analysis names only the
        # environment; keep the capture index so that loads through different captured references are different values
        if proj and proj[0]["k"] == "deref" and not (1 <= l <= body["argc"]):
            ds_ = mir.defs(body).get(l, [])
            if len(ds_) == 1 and ds_[0][0] == "stmt" and not mir.partial_defs(body).get(l):
                rv_ = ds_[0][3]["rv"]
                op_ = rv_.get("op") if rv_.get("k") == "use" else None
                if op_ and op_.get("k") in ("copy", "move"):
                    sp_ = op_["place"]
                    if 1 <= sp_["l"] <= body["argc"] and len(sp_["p"]) == 1 and sp_["p"][0]["k"] == "field" and sp_["p"][0].get("adt") == "<closure-env>":
                        rest_ = "".join("." + mir.proj_key(pe) for pe in proj[1:])
                        path_ = "arg%d.%d.*%s" % (sp_["l"], sp_["p"][0]["i"], rest_)
        if idx:
            # explicit indexing: keep the index expressions so that different elements are different values
            return ("load", path_, place["ty"], tuple(idx))
        return ("load", path_, place["ty"])
    # projections of a local value (tuple/struct fields, enum payloads)
    e = expr_local(body, l, depth + 1, stop)
    for pe in proj:
        k = mir.proj_key(pe)
        # projecting a field out of a freshly built aggregate: pick the operand
        if e[0] == "agg" and pe["k"] == "field" and pe["i"] < len(e[3]):
            e = e[3][pe["i"]]
        elif k.startswith("as ") and e[0] == "agg":
            continue
        else:
            e = ("proj", e, k)
    return e


def _promoted_value(body, l):
    """if local l is (a copy of) a reference to a promoted constant, the expression of the constant's value"""
    seen = 0
    while seen < 5:
        seen += 1
        ds = mir.defs(body).get(l, [])
        if len(ds) != 1 or ds[0][0] != "stmt":
            return None
        rv = ds[0][3]["rv"]
        if rv["k"] == "use" and rv["op"]["k"] == "const" and "promoted" in rv["op"]:
            pb = body.get("promoted", [])
            i = rv["op"]["promoted"]
            if i < len(pb):
                e = expr_local(pb[i], 0)
                if e and e[0] == "ref":
                    return e[1]
                return ("promoted", e)
            return None
        if rv["k"] == "use" and rv["op"]["k"] in ("copy", "move") and not rv["op"]["place"]["p"]:
            l = rv["op"]["place"]["l"]
            continue
        return None
    return None


def expr_local(body, l, depth=0, stop=()):
    if depth > MAXD:
        return ("deep",)
    name = mir.debug_name(body, l)
    if 1 <= l <= body["argc"]:
        return ("arg", l, name or "_%d" % l)
    if l in stop:
        return ("var", l, name or "_%d" % l)
    ds = mir.defs(body).get(l, [])
    pds = mir.partial_defs(body).get(l, [])
    if len(ds) == 1 and not pds:
        d = ds[0]
        if d[0] == "stmt":
            return expr_rv(body, d[3]["rv"], depth + 1, stop)
        t = d[2]
        name_, info = mir.callee(t)
        nm = mir.norm(name_) if name_ else "<indirect>"
        return _note_ty(body, ("call", nm, tuple(expr(body, a, depth + 1, stop) for a in t["args"]), name_, d[1]), t["dest"]["ty"])
    return ("var", l, name or "_%d" % l)


def expand_phi(body, e, depth=2):
    """replace ('var', l, name) nodes of a local with several whole definitions (the arms of a `match` / `if`) by
    ('phi', l, (value of each definition, ...)), so that provenance questions see every arm"""
    if depth < 0 or not isinstance(e, tuple):
        return e
    if e and e[0] == "var" and isinstance(e[1], int):
        ds = mir.defs(body).get(e[1], [])
        if len(ds) >= 2 and not mir.partial_defs(body).get(e[1]):
            return ("phi", e[1], tuple(expand_phi(body, expr_def(body, d, stop=(e[1],)), depth - 1) for d in ds))
        return e
    return tuple(expand_phi(body, x, depth) if isinstance(x, tuple) else x for x in e)


def expr_def(body, d, stop=()):
    """value expression of one definition record from mir.defs (assignment statement or call terminator)"""
    if d[0] == "stmt":
        return expr_rv(body, d[3]["rv"], 0, stop)
    t = d[2]
    name_, info = mir.callee(t)
    nm = mir.norm(name_) if name_ else "<indirect>"
    return _note_ty(body, ("call", nm, tuple(expr(body, a, 1, stop) for a in t["args"]), name_, d[1]), t["dest"]["ty"])


def expr(body, op, depth=0, stop=()):
    k = op["k"]
    if k == "const":
        if "promoted" in op:
            pb = body.get("promoted", [])
            if op["promoted"] < len(pb):
                return ("promoted", expr_local(pb[op["promoted"]], 0))
        if "fn" in op:
            c = op["callee"]
            return ("fn", c.get("resolved") or c["decl"])
        if "v" in op:
            return ("const", op["v"], op["ty"])
        if "fbits" in op:
            return ("const", op.get("text", op["fbits"]), op["ty"])
        return ("const", op.get("text", op.get("unevaluated", "?")), op["ty"])
    if k in ("copy", "move"):
        return expr_place(body, op["place"], depth, stop)
    return ("?",)


def expr_rv(body, rv, depth=0, stop=()):
    k = rv["k"]
    if k == "use":
        return expr(body, rv["op"], depth, stop)
    if k in ("ref", "rawptr"):
        pl = rv["place"]
        if not pl["p"]:
            return ("ref", expr_local(body, pl["l"], depth + 1, stop))
        if len(pl["p"]) == 1 and pl["p"][0]["k"] == "deref":
            pv = _promoted_value(body, pl["l"])
            if pv is not None:
                return ("ref", pv)
            # reborrow `&*r` of a reference-typed temporary that is not a parameter: the reference value itself
            lty = body["locals"][pl["l"]]["ty"]
            if lty.startswith("&") and not (1 <= pl["l"] <= body["argc"]) and depth < MAXD:
                inner = expr_local(body, pl["l"], depth + 1, stop)
                if inner[0] not in ("var",):
                    return inner
        tg = mir.place_targets(body, pl)
        if len(tg) == 1:
            (r, pth), = tg
            if r[0] == "local" and not pth and r[1] != pl["l"] and depth < MAXD:
                return ("ref", expr_local(body, r[1], depth + 1, stop))
        return ("refplace", targets_str(body, pl), pl["ty"])
    if k == "cast":
        return ("cast", rv["kind"], rv["from"], rv["to"], expr(body, rv["op"], depth + 1, stop))
    if k == "binop":
        return ("bin", rv["op"], expr(body, rv["a"], depth + 1, stop), expr(body, rv["b"], depth + 1, stop))
    if k == "unop":
        return ("un", rv["op"], expr(body, rv["a"], depth + 1, stop))
    if k == "aggregate":
        tag = rv.get("agg")
        if tag == "adt":
            tag = "%s::%s" % (rv["adt"], rv["variant"])
        elif tag == "closure":
            tag = "closure " + rv["closure"]
        return ("agg", tag, tuple(rv.get("fields", [])), tuple(expr(body, o, depth + 1, stop) for o in rv["ops"]))
    if k == "discr":
        return ("discr", expr_place(body, rv["place"], depth + 1, stop))
    if k == "copyderef":
        return expr_place(body, rv["place"], depth + 1, stop)
    if k == "repeat":
        return ("repeat", expr(body, rv["op"], depth + 1, stop), rv["n"])
    if k == "tlsref":
        return ("tls", rv["static"])
    return ("rv?", rv.get("dbg", k))


def walk(e):
    """pre-order iteration over all sub-terms"""
    yield e
    if isinstance(e, tuple):
        for x in e[1:]:
            if isinstance(x, tuple):
                if x and isinstance(x[0], str):
                    yield from walk(x)
                else:
                    for y in x:
                        if isinstance(y, tuple):
                            yield from walk(y)


def sources(e):
    """set of leaf sources of an expression: ('arg', i) | ('load', path) | ('const', v) | ('var', l) | ('call-ext', name)"""
    out = set()
    for t in walk(e):
        if not isinstance(t, tuple) or not t:
            continue
        if t[0] == "arg":
            out.add(("arg", t[1], t[2]))
        elif t[0] == "load":
            out.add(("load", t[1]))
        elif t[0] == "refplace":
            out.add(("load", t[1]))
        elif t[0] == "const":
            out.add(("const", t[1]))
        elif t[0] == "var":
            out.add(("var", t[1], t[2]))
        elif t[0] == "tls":
            out.add(("tls", t[1]))
    return out


def ops(e):
    """multiset (as sorted list) of operators / callee names on the expression"""
    out = []
    for t in walk(e):
        if not isinstance(t, tuple) or not t:
            continue
        if t[0] == "bin":
            out.append(t[1])
        elif t[0] == "un":
            out.append(t[1])
        elif t[0] == "cast":
            out.append("cast:" + t[1] + ":" + t[3])
        elif t[0] == "call":
            out.append("call:" + t[1])
    return sorted(out)


def show(e, depth=0):
    if not isinstance(e, tuple) or not e:
        return str(e)
    h = e[0]
    if h == "arg":
        return e[2]
    if h == "var":
        return "var:" + e[2]
    if h == "const":
        return str(e[1])
    if h == "load":
        return "[" + e[1] + "]"
    if h == "refplace":
        return "&[" + e[1] + "]"
    if h == "ref":
        return "&" + show(e[1])
    if h == "call":
        return "%s(%s)" % (e[1].split("::")[-1], ", ".join(show(a) for a in e[2]))
    if h == "bin":
        return "(%s %s %s)" % (show(e[2]), e[1], show(e[3]))
    if h == "un":
        return "%s(%s)" % (e[1], show(e[2]))
    if h == "cast":
        return "(%s as %s)" % (show(e[4]), e[3])
    if h == "agg":
        return "%s{%s}" % (e[1], ", ".join(show(a) for a in e[3]))
    if h == "proj":
        return "%s.%s" % (show(e[1]), e[2])
    if h == "discr":
        return "discr(%s)" % show(e[1])
    if h == "fn":
        return "fn:" + e[1]
    if h == "promoted":
        return "const " + show(e[1])
    return str(e)
