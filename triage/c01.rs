use muxide::api::*;
fn key() -> Vec<u8> {
    vec![0,0,0,1,0x67,0x42,0x00,0x1e,0xda,0x02,0x80,0x2d,0x8b,0x11, 0,0,0,1,0x68,0xce,0x38,0x80, 0,0,0,1,0x65,0xaa,0xbb,0xcc,0xdd]
}
fn p(tag: u8, n: usize) -> Vec<u8> { let mut v = vec![0,0,0,1,0x41]; v.extend(std::iter::repeat(tag).take(n)); v }
fn adts() -> Vec<u8> { vec![0xff, 0xf1, 0x4c, 0x80, 0x01, 0x3f, 0xfc, 0xaa, 0xbb] }
fn find_all(data: &[u8], typ: &[u8;4]) -> Vec<usize> { (4..data.len()-4).filter(|&i| &data[i..i+4] == typ).map(|i| i-4).collect() }
fn be32(d: &[u8], o: usize) -> u32 { u32::from_be_bytes([d[o],d[o+1],d[o+2],d[o+3]]) }
fn run(fast: bool) {
    let mut out = Vec::new();
    let mut m = MuxerBuilder::new(&mut out).video(VideoCodec::H264, 640, 480, 30.0).audio(AudioCodec::Aac(AacProfile::Lc), 48000, 2).with_fast_start(fast).build().unwrap();
    // decode order I P B B, display order I B B P
    m.write_video_with_dts(0.0, 0.0, &key(), true).unwrap();
    m.write_audio(0.0, &adts()).unwrap();
    m.write_video_with_dts(0.3, 0.1, &p(0x11, 10), false).unwrap();
    m.write_video_with_dts(0.1, 0.2, &p(0x22, 20), false).unwrap();
    m.write_video_with_dts(0.2, 0.3, &p(0x33, 30), false).unwrap();
    m.finish().unwrap();
    // first trak = video: its stsz sizes and stco offsets
    let stsz = find_all(&out, b"stsz")[0]; let stco = find_all(&out, b"stco")[0];
    let n = be32(&out, stsz+16) as usize; assert_eq!(n, 4);
    let tags = [0x65u8, 0x11, 0x22, 0x33];
    for i in 0..n {
        let size = be32(&out, stsz+20+4*i) as usize; let off = be32(&out, stco+16+4*i) as usize;
        // sample i = 4-byte length prefix + NAL; for i=0 the first NAL is the SPS; check the last byte / payload tag
        let s = &out[off..off+size];
        assert_eq!(s[size-1], if i==0 {0xdd} else {tags[i]}, "sample {} resolves to wrong bytes (fast_start={})", i, fast);
    }
}
#[test] fn bframes_with_audio_standard() { run(false) }
#[test] fn bframes_with_audio_fast_start() { run(true) }
