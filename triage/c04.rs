use muxide::api::*;
fn key() -> Vec<u8> {
    vec![0,0,0,1,0x67,0x42,0x00,0x1e,0xda,0x02,0x80,0x2d,0x8b,0x11, 0,0,0,1,0x68,0xce,0x38,0x80, 0,0,0,1,0x65,0xaa,0xbb,0xcc,0xdd]
}
#[test]
fn mixed_entry_points_name_the_violated_precondition() {
    let mut out = Vec::new();
    let mut m = MuxerBuilder::new(&mut out).video(VideoCodec::H264, 640, 480, 30.0).build().unwrap();
    m.write_video(1.0, &key(), true).unwrap();
    // decode time 0.5 is not after the previous frame's decode time 1.0: the DTS precondition is violated, the PTS one is not
    let e = m.write_video_with_dts(2.0, 0.5, &[0,0,0,1,0x41,0xaa], false).unwrap_err();
    assert!(matches!(e, MuxerError::NonIncreasingDts { .. }), "got {:?}", e);
}
