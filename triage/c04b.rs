//! C04 / encode_video: the API-level HEVC keyframe classifier disagrees with the crate's own definition
//! (codec::h265::is_hevc_keyframe: IRAP = NAL types 16..=21) for BLA pictures (types 16..=18).
use muxide::api::*;
fn hevc_first_frame(slice_type: u8) -> Vec<u8> {
    let mut d = Vec::new();
    d.extend_from_slice(&[0, 0, 0, 1, 0x40, 0x01, 0x0c, 0x01, 0xff, 0xff, 0x01, 0x60, 0x00, 0x00, 0x03, 0x00, 0x90, 0x00, 0x00, 0x03, 0x00, 0x00, 0x03, 0x00, 0x5d, 0x95, 0x98, 0x09]);
    d.extend_from_slice(&[0, 0, 0, 1, 0x42, 0x01, 0x01, 0x01, 0x60, 0x00, 0x00, 0x03, 0x00, 0x90, 0x00, 0x00, 0x03, 0x00, 0x00, 0x03, 0x00, 0x5d, 0xa0, 0x02, 0x80, 0x80, 0x2d, 0x16, 0x59, 0x59, 0xa4, 0x93, 0x24, 0xb8]);
    d.extend_from_slice(&[0, 0, 0, 1, 0x44, 0x01, 0xc0, 0x73, 0xc0, 0x4c, 0x90]);
    d.extend_from_slice(&[0, 0, 0, 1, slice_type << 1, 0x01, 0xaf, 0x06, 0xb8, 0x63, 0xef, 0x3e]);
    d
}
#[test]
fn encode_video_accepts_every_irap_first_frame() {
    for t in 16u8..=21 {
        let f = hevc_first_frame(t);
        assert!(muxide::codec::is_hevc_keyframe(&f), "type {t}");
        let mut out = Vec::new();
        let mut m = MuxerBuilder::new(&mut out).video(VideoCodec::H265, 640, 480, 30.0).build().unwrap();
        m.write_video(0.0, &f, true).unwrap();          // the explicit form accepts it
        let mut out2 = Vec::new();
        let mut m2 = MuxerBuilder::new(&mut out2).video(VideoCodec::H265, 640, 480, 30.0).build().unwrap();
        let r = m2.encode_video(&f, 33);
        assert!(r.is_ok(), "NAL type {t}: encode_video rejected an IRAP first frame with {:?}", r);
    }
}
