use muxide::api::*;
fn key() -> Vec<u8> {
    vec![0,0,0,1,0x67,0x42,0x00,0x1e,0xda,0x02,0x80,0x2d,0x8b,0x11, 0,0,0,1,0x68,0xce,0x38,0x80, 0,0,0,1,0x65,0xaa,0xbb,0xcc,0xdd]
}
fn adts() -> Vec<u8> { vec![0xff, 0xf1, 0x4c, 0x80, 0x01, 0x3f, 0xfc, 0xaa, 0xbb] }
#[test]
fn t1_rejected_first_video_unlocks_audio() {
    let mut out = Vec::new();
    let mut m = MuxerBuilder::new(&mut out).video(VideoCodec::H264, 640, 480, 30.0).audio(AudioCodec::Aac(AacProfile::Lc), 48000, 2).build().unwrap();
    assert!(m.write_video(0.0, &[0,0,0,1,0x41,0xaa], false).is_err());
    // no video frame has been accepted: audio must still be rejected
    assert!(m.write_audio(0.0, &adts()).is_err(), "audio accepted although no video frame was ever accepted");
}
fn run(with_rejected: bool) -> (Vec<u8>, MuxerStats) {
    let mut out = Vec::new();
    let mut m = MuxerBuilder::new(&mut out).video(VideoCodec::H264, 640, 480, 30.0).audio(AudioCodec::Aac(AacProfile::Lc), 48000, 2).build().unwrap();
    m.write_video(0.0, &key(), true).unwrap();
    m.write_audio(0.0, &adts()).unwrap();
    if with_rejected {
        assert!(m.write_audio(1.0, &[1,2,3,4,5,6,7,8,9]).is_err());
    }
    let st = m.finish_in_place_with_stats().unwrap();
    drop(m);
    (out, st)
}
#[test]
fn t2_rejected_audio_leaves_no_trace() {
    let (a, sa) = run(false);
    let (b, sb) = run(true);
    assert_eq!(sa, sb, "stats differ");
    assert_eq!(a, b, "file bytes differ after a rejected audio frame");
}
