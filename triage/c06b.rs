use muxide::api::{MuxerBuilder, VideoCodec};
fn key() -> Vec<u8> { vec![0,0,0,1,0x67,0x42,0x00,0x1e,0xda,0x02,0x80,0x2d,0x8b,0x11,0,0,0,1,0x68,0xce,0x38,0x80,0,0,0,1,0x65,0x88,0x84] }
fn delta() -> Vec<u8> { vec![0,0,0,1,0x41,0x9a,0x24] }
#[test]
fn duration_is_the_largest_presentation_end_with_b_frames() {
    let f = 1.0 / 30.0;
    let mut m = MuxerBuilder::new(Vec::new()).video(VideoCodec::H264, 640, 480, 30.0).build().unwrap();
    m.write_video_with_dts(0.0, 0.0, &key(), true).unwrap();       // I
    m.write_video_with_dts(3.0 * f, 1.0 * f, &delta(), false).unwrap(); // P
    m.write_video_with_dts(1.0 * f, 2.0 * f, &delta(), false).unwrap(); // B
    m.write_video_with_dts(2.0 * f, 3.0 * f, &delta(), false).unwrap(); // B
    let s = m.finish_with_stats().unwrap();
    // P is presented at 3/30 s for one frame: the presentation ends at 4/30 s
    assert!((s.duration_secs - 4.0 * f).abs() < 1.5 / 90000.0, "duration_secs = {} (expected {})", s.duration_secs, 4.0 * f);
}
