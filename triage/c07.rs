use muxide::api::*;
#[test]
fn zero_frame_hevc_file_uses_hevc_sample_entry() {
    let mut out = Vec::new();
    let m = MuxerBuilder::new(&mut out).video(VideoCodec::H265, 640, 480, 30.0).build().unwrap();
    m.finish().unwrap();
    assert!(!out.windows(4).any(|w| w == b"avc1"), "an H.265 muxer wrote an avc1 sample entry");
}
#[test]
fn fragmented_av1c_fields_match_sequence_header() {
    // sequence header OBU with seq_profile = 1 (first 3 payload bits 001): header byte 0x0a (type 1, has_size), size 1.. payload 0x20
    let seq = vec![0x0a, 0x04, 0x20, 0x00, 0x00, 0x00];
    let mut m = MuxerBuilder::new(Vec::<u8>::new()).video(VideoCodec::Av1, 640, 480, 30.0).with_av1_sequence_header(seq).new_with_fragment().unwrap();
    let i = m.init_segment(); let p = i.windows(4).position(|w| w == b"av1C").unwrap();
    assert_eq!(i[p+4+1] >> 5, 1, "seq_profile in av1C is {} but the sequence header says 1", i[p+4+1] >> 5);
}
