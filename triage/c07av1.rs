// AV1 sequence header per AV1 spec 5.5.1 with timing_info_present_flag = 0 (the common case)
struct Bw { bytes: Vec<u8>, n: usize }
impl Bw {
    fn new() -> Self { Bw { bytes: vec![], n: 0 } }
    fn put(&mut self, v: u64, bits: usize) { for i in (0..bits).rev() { let b = ((v >> i) & 1) as u8; if self.n % 8 == 0 { self.bytes.push(0); } let l = self.bytes.len() - 1; self.bytes[l] |= b << (7 - self.n % 8); self.n += 1; } }
}
fn seq_header(timing_info: bool) -> Vec<u8> {
    let mut w = Bw::new();
    w.put(0, 3); // seq_profile
    w.put(0, 1); // still_picture
    w.put(0, 1); // reduced_still_picture_header
    w.put(timing_info as u64, 1); // timing_info_present_flag
    if timing_info {
        w.put(1, 32); w.put(30, 32); w.put(0, 1); // timing_info: equal_picture_interval = 0
        w.put(0, 1); // decoder_model_info_present_flag (only present inside this branch)
    }
    w.put(0, 1); // initial_display_delay_present_flag
    w.put(0, 5); // operating_points_cnt_minus_1
    w.put(0, 12); // operating_point_idc[0]
    w.put(8, 5); // seq_level_idx[0] = 8 (> 7: tier follows)
    w.put(1, 1); // seq_tier[0]
    w.put(3, 4); w.put(3, 4); // frame_width_bits_minus_1, frame_height_bits_minus_1
    w.put(15, 4); w.put(15, 4); // max_frame_width_minus_1, max_frame_height_minus_1
    w.put(0, 1); // frame_id_numbers_present_flag
    w.put(0, 1); w.put(0, 1); w.put(0, 1); // use_128x128_superblock, enable_filter_intra, enable_intra_edge_filter
    w.put(0, 1); w.put(0, 1); w.put(0, 1); w.put(0, 1); // interintra, masked, warped, dual_filter
    w.put(0, 1); // enable_order_hint
    w.put(1, 1); // seq_choose_screen_content_tools -> SELECT
    w.put(1, 1); // seq_choose_integer_mv
    w.put(0, 1); w.put(0, 1); w.put(0, 1); // superres, cdef, restoration
    w.put(1, 1); // high_bitdepth
    w.put(0, 1); // mono_chrome
    w.put(0, 1); // color_description_present_flag
    w.put(0, 1); // color_range
    w.put(2, 2); // chroma_sample_position (profile 0: 4:2:0)
    w.put(0, 1); // separate_uv_delta_q
    w.put(0, 1); // film_grain_params_present
    w.put(1, 1); // trailing one bit
    let mut obu = vec![0x0A, w.bytes.len() as u8];
    obu.extend(w.bytes);
    obu
}
fn check(timing_info: bool) {
    let obu = seq_header(timing_info);
    let c = muxide::codec::av1::extract_av1_config(&obu).expect("sequence header must parse");
    assert_eq!((c.seq_profile, c.seq_level_idx, c.seq_tier), (0, 8, 1), "profile/level/tier");
    assert_eq!((c.high_bitdepth, c.twelve_bit, c.monochrome), (true, false, false), "bit depth / monochrome");
    assert_eq!((c.chroma_subsampling_x, c.chroma_subsampling_y, c.chroma_sample_position), (true, true, 2), "chroma");
}
#[test]
fn av1_config_without_timing_info() { check(false); }
#[test]
fn av1_config_with_timing_info() { check(true); }

#[test]
fn av1_monochrome_has_unknown_chroma_sample_position() {
    // color_config for mono_chrome = 1 ends after color_range (AV1 spec 5.5.2): no chroma_sample_position bits are coded
    let mut w = Bw::new();
    w.put(0, 3); w.put(0, 1); w.put(0, 1); // profile 0, still_picture, reduced
    w.put(0, 1); // timing_info_present_flag
    w.put(0, 1); w.put(0, 5); w.put(0, 12); w.put(1, 5); // idd, op_cnt-1, idc, level 1
    w.put(3, 4); w.put(3, 4); w.put(15, 4); w.put(15, 4); w.put(0, 1);
    w.put(0, 1); w.put(0, 1); w.put(0, 1);
    w.put(0, 1); w.put(0, 1); w.put(0, 1); w.put(0, 1); w.put(0, 1); w.put(1, 1); w.put(1, 1);
    w.put(0, 1); w.put(0, 1); w.put(0, 1);
    w.put(0, 1); // high_bitdepth
    w.put(1, 1); // mono_chrome
    w.put(0, 1); // color_description_present_flag
    w.put(1, 1); // color_range
    w.put(1, 1); // film_grain_params_present
    w.put(1, 1); // trailing bit
    let mut obu = vec![0x0A, w.bytes.len() as u8];
    obu.extend(w.bytes);
    let c = muxide::codec::av1::extract_av1_config(&obu).expect("parses");
    assert!(c.monochrome);
    assert_eq!(c.chroma_sample_position, 0, "CSP_UNKNOWN for monochrome");
}
