//! C07/C19: the init segment's hvcC must carry the stream's general_profile_space/tier/profile_idc and general_level_idc
//! (first and twelfth byte of the SPS's profile_tier_level, SPS NAL bytes 3 and 14), as the progressive hvcC does.
use muxide::fragmented::{FragmentConfig, FragmentedMuxer};
fn find(hay: &[u8], needle: &[u8]) -> usize { hay.windows(needle.len()).position(|w| w == needle).unwrap() }
#[test]
fn init_hvcc_repeats_profile_tier_level() {
    let vps = vec![0x40, 0x01, 0x0c, 0x01, 0xff, 0xff, 0x01, 0x60, 0x00, 0x00, 0x03, 0x00, 0x90, 0x00, 0x00, 0x03, 0x00, 0x00, 0x03, 0x00, 0x5d, 0x95, 0x98, 0x09];
    // SPS: byte 3 = 0x22 (profile_space 0, tier 1, profile_idc 2 = Main 10), byte 14 = 0x7b (level 4.1)
    let sps = vec![0x42, 0x01, 0x01, 0x22, 0x20, 0x00, 0x00, 0x03, 0x00, 0x90, 0x00, 0x00, 0x03, 0x00, 0x7b, 0xa0, 0x02, 0x80, 0x80, 0x2d, 0x16];
    let pps = vec![0x44, 0x01, 0xc0, 0x73, 0xc0, 0x4c, 0x90];
    let config = FragmentConfig { width: 1280, height: 720, timescale: 90000, fragment_duration_ms: 1000, sps: sps.clone(), pps, vps: Some(vps),
        av1_sequence_header: None, vp9_config: None };
    let mut m = FragmentedMuxer::new(config);
    let init = m.init_segment();
    let p = find(&init, b"hvcC");
    let rec = &init[p + 4..];
    assert_eq!(rec[0], 1);
    assert_eq!(rec[1], sps[3], "general_profile_space / tier / profile_idc");
    assert_eq!(rec[12], sps[14], "general_level_idc");
}
