//! C07: AV1 uvlc() with 32 leading zeros (value 2^32-1) carries no value bits (AV1 spec 4.10.3); the parser skipped 32 more bits.
fn bits_to_obu(bits: &str) -> Vec<u8> {
    let mut bytes = Vec::new();
    let mut cur = 0u8; let mut n = 0;
    for c in bits.chars().filter(|c| *c == '0' || *c == '1') { cur = (cur << 1) | (c == '1') as u8; n += 1; if n == 8 { bytes.push(cur); cur = 0; n = 0; } }
    if n > 0 { bytes.push(cur << (8 - n)); }
    let mut obu = vec![0x0A, bytes.len() as u8];
    obu.extend_from_slice(&bytes);
    obu
}
#[test]
fn uvlc_with_32_leading_zeros() {
    let mut b = String::new();
    b += "000 0 0";                       // seq_profile 0, still_picture 0, reduced_still_picture_header 0
    b += "1";                             // timing_info_present_flag
    b += &format!("{:032b}", 1u32);       // num_units_in_display_tick
    b += &format!("{:032b}", 30u32);      // time_scale
    b += "1";                             // equal_picture_interval
    b += &"0".repeat(32); b += "1";       // num_ticks_per_picture_minus_1 = uvlc() = 2^32-1: no value bits follow
    b += "0";                             // decoder_model_info_present_flag
    b += "0";                             // initial_display_delay_present_flag
    b += "00000";                         // operating_points_cnt_minus_1
    b += "000000000000";                  // operating_point_idc[0]
    b += "01001";                         // seq_level_idx[0] = 9
    b += "1";                             // seq_tier[0] = 1
    b += "0000 0000 0 0";                 // frame_width_bits_minus_1, frame_height_bits_minus_1, max_frame_width_minus_1, max_frame_height_minus_1
    b += "0";                             // frame_id_numbers_present_flag
    b += "0 0 0";                         // use_128x128_superblock, enable_filter_intra, enable_intra_edge_filter
    b += "0 0 0 0";                       // enable_interintra_compound, enable_masked_compound, enable_warped_motion, enable_dual_filter
    b += "0";                             // enable_order_hint
    b += "1";                             // seq_choose_screen_content_tools
    b += "1";                             // seq_choose_integer_mv
    b += "0 0 0";                         // enable_superres, enable_cdef, enable_restoration
    b += "1";                             // high_bitdepth
    b += "0";                             // mono_chrome
    b += "0";                             // color_description_present_flag
    b += "0";                             // color_range
    b += "00";                            // chroma_sample_position
    b += "0";                             // separate_uv_delta_q
    b += "0";                             // film_grain_params_present
    b += "1";                             // trailing one bit
    let obu = bits_to_obu(&b);
    let cfg = muxide::codec::av1::extract_av1_config(&obu).expect("valid sequence header");
    assert_eq!((cfg.seq_profile, cfg.seq_level_idx, cfg.seq_tier, cfg.high_bitdepth, cfg.monochrome), (0, 9, 1, true, false));
}
