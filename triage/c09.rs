use muxide::api::*;
fn key() -> Vec<u8> {
    vec![0,0,0,1,0x67,0x42,0x00,0x1e,0xda,0x02,0x80,0x2d,0x8b,0x11, 0,0,0,1,0x68,0xce,0x38,0x80, 0,0,0,1,0x65,0xaa,0xbb,0xcc,0xdd]
}
fn adts() -> Vec<u8> { vec![0xff, 0xf1, 0x4c, 0x80, 0x01, 0x3f, 0xfc, 0xaa, 0xbb] }
#[test]
fn late_audio_does_not_play_from_zero() {
    let mut out = Vec::new();
    let mut m = MuxerBuilder::new(&mut out).video(VideoCodec::H264, 640, 480, 30.0).audio(AudioCodec::Aac(AacProfile::Lc), 48000, 2).build().unwrap();
    m.write_video(0.0, &key(), true).unwrap();
    m.write_video(1.0, &[0,0,0,1,0x41,1], false).unwrap();
    m.write_audio(1.0, &adts()).unwrap();   // audio starts one second after the video
    m.write_audio(1.5, &adts()).unwrap();
    m.finish().unwrap();
    // the audio track's first sample sits at media time 0 (stts only carries durations); without an edit list it plays at t=0
    assert!(out.windows(4).any(|w| w == b"elst"), "no edit list: audio submitted at t=1.0s is presented at t=0");
}
