use muxide::fragmented::{FragmentConfig, FragmentedMuxer};
fn tfdt(seg: &[u8]) -> u64 { let p = seg.windows(4).position(|w| w == b"tfdt").unwrap(); u64::from_be_bytes(seg[p+8..p+16].try_into().unwrap()) }
#[test]
fn base_time_is_first_dts_minus_one_constant() {
    let mut m = FragmentedMuxer::new(FragmentConfig::default());
    let d = vec![0,0,0,1,0x65];
    // constant frame interval 3000, stream starts at DTS 9000
    for (i, dts) in [9000u64, 12000].iter().enumerate() { m.write_video(*dts, *dts, &d, i == 0).unwrap(); }
    let s0 = m.flush_segment().unwrap();
    for dts in [15000u64, 18000] { m.write_video(dts, dts, &d, false).unwrap(); }
    let s1 = m.flush_segment().unwrap();
    let c0 = 9000 - tfdt(&s0) as i64; let c1 = 15000 - tfdt(&s1) as i64;
    assert_eq!(c0, c1, "first DTS - base time differs between segments: {} vs {}", c0, c1);
}
