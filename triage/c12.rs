use muxide::api::*;
use muxide::fragmented::{FragmentConfig, FragmentedMuxer};
fn key() -> Vec<u8> {
    vec![0,0,0,1,0x67,0x42,0x00,0x1e,0xda,0x02,0x80,0x2d,0x8b,0x11, 0,0,0,1,0x68,0xce,0x38,0x80, 0,0,0,1,0x65,0xaa,0xbb,0xcc,0xdd]
}
fn muxer(codec: VideoCodec, out: &mut Vec<u8>) -> Muxer<&mut Vec<u8>> { MuxerBuilder::new(out).video(codec, 640, 480, 30.0).audio(AudioCodec::Aac(AacProfile::Lc), 48000, 2).build().unwrap() }
#[test] fn encode_video_empty_is_an_error_not_a_panic() { let mut o = Vec::new(); let mut m = muxer(VideoCodec::H264, &mut o); assert!(m.encode_video(&[], 33).is_err()); }
#[test] fn encode_video_empty_nal_unit() { let mut o = Vec::new(); let mut m = muxer(VideoCodec::H264, &mut o); let _ = m.encode_video(&[0,0,1,0,0,1,0x65], 33); }
#[test] fn encode_video_empty_nal_unit_h265() { let mut o = Vec::new(); let mut m = muxer(VideoCodec::H265, &mut o); let _ = m.encode_video(&[0,0,1,0,0,1,0x26], 33); }
#[test] fn encode_video_short_vp9() { let mut o = Vec::new(); let mut m = muxer(VideoCodec::Vp9, &mut o); let _ = m.encode_video(&[0x00], 33); }
#[test] fn hevc_keyframe_empty() { assert!(!muxide::codec::h265::is_hevc_keyframe(&[])); }
#[test] fn hevc_keyframe_no_start_code() { assert!(!muxide::codec::h265::is_hevc_keyframe(&[1,2,3])); }
#[test] fn adts_with_zero_payload_then_finish() {
    let mut o = Vec::new(); let mut m = muxer(VideoCodec::H264, &mut o);
    m.write_video(0.0, &key(), true).unwrap();
    // aac_frame_length = 7 = header length: declared payload is empty
    let r = m.write_audio(0.0, &[0xff, 0xf1, 0x4c, 0x80, 0x00, 0xff, 0xfc, 0xaa]);
    let f = m.finish_in_place();
    assert!(r.is_err() || f.is_ok());
}
#[test] fn fragment_timescale_zero() {
    let mut c = FragmentConfig::default(); c.timescale = 0;
    let mut m = FragmentedMuxer::new(c);
    m.write_video(0, 0, &[1], true).unwrap(); m.write_video(10, 10, &[1], false).unwrap();
    let _ = m.ready_to_flush(); let _ = m.current_fragment_duration_ms();
}
#[test] fn fragment_duration_huge_dts() {
    let mut m = FragmentedMuxer::new(FragmentConfig::default());
    m.write_video(0, 0, &[1], true).unwrap(); m.write_video(u64::MAX / 2, u64::MAX / 2, &[1], false).unwrap();
    let _ = m.ready_to_flush(); let _ = m.current_fragment_duration_ms();
}
#[test] fn stats_with_huge_timestamp() {
    let mut o = Vec::new(); let mut m = MuxerBuilder::new(&mut o).video(VideoCodec::H264, 640, 480, 30.0).build().unwrap();
    m.write_video(0.0, &key(), true).unwrap();
    m.write_video(40000.0, &[0,0,0,1,0x41,1], false).unwrap();   // delta < 2^32 ticks
    m.write_video(1.0e300, &[0,0,0,1,0x41,1], false).unwrap_or(());
    let _ = m.finish_in_place_with_stats();
}
#[test] fn long_timeline_movie_duration() {
    // 5 million frames 47000 s apart: total duration * 1000 exceeds u64
    let mut o = Vec::new(); let mut m = MuxerBuilder::new(&mut o).video(VideoCodec::H264, 640, 480, 30.0).with_fast_start(false).build().unwrap();
    m.write_video(0.0, &key(), true).unwrap();
    let p = [0u8,0,0,1,0x41,1];
    for i in 1..4_400_000u64 { m.write_video(i as f64 * 47000.0, &p, false).unwrap(); }
    m.finish().unwrap();
}
#[test] fn creation_time_far_future_is_prompt() {
    let t0 = std::time::Instant::now();
    let mut o = Vec::new(); let m = MuxerBuilder::new(&mut o).video(VideoCodec::H264, 640, 480, 30.0).set_create_time(u64::MAX).build().unwrap();
    m.finish().unwrap();
    assert!(t0.elapsed().as_secs() < 5);
}

#[test]
fn av1_sequence_header_with_reserved_profile_is_an_error_not_a_panic() {
    // OBU header 0x0A = sequence header with size field; size 2; payload starts with profile bits 111
    let frame = [0x0A, 0x02, 0xE0, 0x00];
    assert!(muxide::codec::av1::extract_av1_config(&frame).is_none());
    let mut m = muxide::api::MuxerBuilder::new(Vec::new())
        .video(muxide::api::VideoCodec::Av1, 640, 480, 30.0)
        .build()
        .unwrap();
    assert!(m.write_video(0.0, &frame, true).is_err());
}

// ---- known findings (still panic on the current tree) -------------------------------------------------
fn h264_key() -> Vec<u8> {
    vec![0, 0, 0, 1, 0x67, 0x42, 0x00, 0x1e, 0xda, 0x02, 0x80, 0x2d, 0x8b, 0x11, 0, 0, 0, 1, 0x68, 0xce, 0x38, 0x80, 0, 0, 0, 1, 0x65, 0x88, 0x84]
}

#[test]
#[ignore = "known finding C12: dimensions above 65535 reach an always-on invariant in finish()"]
fn kf_wide_video_panics_in_finish() {
    let mut m = muxide::api::MuxerBuilder::new(Vec::new())
        .video(muxide::api::VideoCodec::H264, 70_000, 480, 30.0)
        .build()
        .unwrap();
    m.write_video(0.0, &h264_key(), true).unwrap();
    let r = std::panic::catch_unwind(std::panic::AssertUnwindSafe(move || m.finish()));
    assert!(r.is_ok(), "finish() panicked");
}

#[test]
#[ignore = "known finding C12: pts as i64 - dts as i64 overflows for pts >= 2^63 ticks"]
fn kf_cts_subtraction_overflow() {
    let mut m = muxide::api::MuxerBuilder::new(Vec::new())
        .video(muxide::api::VideoCodec::H264, 640, 480, 30.0)
        .build()
        .unwrap();
    // pts ~ 2^63 ticks (1.0248e14 s), dts = 1e6 s
    let r0 = m.write_video_with_dts(102481911520609.0, 1.0e6, &h264_key(), true);
    assert!(r0.is_ok(), "{:?}", r0.err());
    let r = std::panic::catch_unwind(std::panic::AssertUnwindSafe(move || m.finish()));
    assert!(r.is_ok(), "finish() panicked");
}

#[test]
#[ignore = "known finding C12: fragmented trun composition offset subtraction overflows"]
fn kf_fragmented_cts_subtraction_overflow() {
    let cfg = muxide::fragmented::FragmentConfig { width: 640, height: 480, timescale: 90000, fragment_duration_ms: 1000, sps: vec![0x67, 1, 2, 3], pps: vec![0x68, 1], vps: None, av1_sequence_header: None, vp9_config: None };
    let mut m = muxide::fragmented::FragmentedMuxer::new(cfg);
    m.write_video(1u64 << 63, 1_000_000, &[0, 0, 0, 1, 0x65, 1], true).unwrap();
    let r = std::panic::catch_unwind(std::panic::AssertUnwindSafe(move || m.flush_segment()));
    assert!(r.is_ok(), "flush_segment() panicked");
}
