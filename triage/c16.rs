// Triage for C16 known findings: each test states the property and FAILS on the current tree.
use muxide::api::{AudioCodec, MuxerBuilder, VideoCodec};

fn h264_key_with_sps(sps_len: usize) -> Vec<u8> {
    let mut v = vec![0, 0, 0, 1, 0x67, 0x42, 0x00, 0x1e];
    v.extend(std::iter::repeat(0xAB).take(sps_len.saturating_sub(4)));
    v.extend([0, 0, 0, 1, 0x68, 0xce, 0x38, 0x80, 0, 0, 0, 1, 0x65, 0x88, 0x84]);
    v
}
fn find(hay: &[u8], needle: &[u8]) -> usize { hay.windows(needle.len()).position(|w| w == needle).expect("box") }
fn be32(b: &[u8], o: usize) -> u32 { u32::from_be_bytes([b[o], b[o + 1], b[o + 2], b[o + 3]]) }
fn be16(b: &[u8], o: usize) -> u16 { u16::from_be_bytes([b[o], b[o + 1]]) }

#[test]
fn kf_mdhd_duration_wraps_after_13h() {
    let mut out = Vec::new();
    {
        let mut m = MuxerBuilder::new(&mut out).video(VideoCodec::H264, 640, 480, 30.0).build().unwrap();
        m.write_video(0.0, &h264_key_with_sps(8), true).unwrap();
        m.write_video(40000.0, &h264_key_with_sps(8), true).unwrap(); // gap 3.6e9 ticks fits u32
        m.write_video(48000.0, &h264_key_with_sps(8), true).unwrap(); // total 4.32e9 + last delta > 2^32
        m.finish().unwrap();
    }
    let p = find(&out, b"mdhd");
    let dur = be32(&out, p + 4 + 4 + 4 + 4 + 4) as u64;
    let expect = 48000u64 * 90000 + 8000 * 90000; // sum of stts deltas (last repeats previous)
    assert_eq!(dur, expect, "mdhd duration wrapped");
}

#[test]
fn kf_composition_offset_wraps() {
    let mut out = Vec::new();
    {
        let mut m = MuxerBuilder::new(&mut out).video(VideoCodec::H264, 640, 480, 30.0).build().unwrap();
        // pts - dts = 30000 s = 2.7e9 ticks > i32::MAX
        let r = m.write_video_with_dts(30000.0, 0.0, &h264_key_with_sps(8), true);
        if r.is_err() { return; } // an error would satisfy the property
        m.finish().unwrap();
    }
    let p = find(&out, b"ctts");
    let off = be32(&out, p + 4 + 4 + 4 + 4) as i32 as i64;
    assert_eq!(off, 30000 * 90000, "ctts offset wrapped");
}

#[test]
fn kf_parameter_set_length_wraps() {
    let mut out = Vec::new();
    {
        let mut m = MuxerBuilder::new(&mut out).video(VideoCodec::H264, 640, 480, 30.0).build().unwrap();
        let r = m.write_video(0.0, &h264_key_with_sps(70_000), true);
        if r.is_err() { return; }
        m.finish().unwrap();
    }
    let p = find(&out, b"avcC");
    let sps_len = be16(&out, p + 4 + 6) as usize;
    assert_eq!(sps_len, 70_000, "avcC SPS length wrapped");
}

#[test]
fn kf_sample_rate_96k_wraps() {
    let mut out = Vec::new();
    {
        let mut m = MuxerBuilder::new(&mut out).video(VideoCodec::H264, 640, 480, 30.0).audio(AudioCodec::Aac(muxide::api::AacProfile::Lc), 96_000, 2).build().unwrap();
        m.write_video(0.0, &h264_key_with_sps(8), true).unwrap();
        m.finish().unwrap();
    }
    let p = find(&out, b"mp4a");
    // AudioSampleEntry: 6 reserved + 2 dref + 8 reserved + 2 ch + 2 size + 4 reserved + 4 samplerate(16.16)
    let sr = be32(&out, p + 4 + 6 + 2 + 8 + 2 + 2 + 4);
    assert_eq!(sr >> 16, 96_000, "mp4a samplerate lost its high bits: {:#x}", sr);
}

#[test]
fn kf_opus_channel_count_wraps() {
    let mut out = Vec::new();
    {
        let b = MuxerBuilder::new(&mut out).video(VideoCodec::H264, 640, 480, 30.0).audio(AudioCodec::Opus, 48_000, 258);
        let mut m = match b.build() { Ok(m) => m, Err(_) => return };
        m.write_video(0.0, &h264_key_with_sps(8), true).unwrap();
        m.finish().unwrap();
    }
    let p = find(&out, b"dOps");
    assert_eq!(out[p + 4 + 1] as u32, 258, "dOps channel count wrapped");
}

#[test]
fn kf_huge_timestamp_is_accepted_and_saturates() {
    let mut out = Vec::new();
    let mut m = MuxerBuilder::new(&mut out).video(VideoCodec::H264, 640, 480, 30.0).build().unwrap();
    let r = m.write_video(1.0e300, &h264_key_with_sps(8), true);
    assert!(r.is_err(), "a timestamp of 1e300 s (not representable in 64-bit ticks) was accepted");
}

#[test]
fn kf_fragmented_dimensions_wrap() {
    let cfg = muxide::fragmented::FragmentConfig { width: 70_000, height: 480, timescale: 90000, fragment_duration_ms: 1000, sps: vec![0x67, 1, 2, 3], pps: vec![0x68, 1], vps: None, av1_sequence_header: None, vp9_config: None };
    let mut m = muxide::fragmented::FragmentedMuxer::new(cfg);
    let init = m.init_segment();
    let p = find(&init, b"avc1");
    let w = be16(&init, p + 4 + 6 + 2 + 16) as u32;
    assert_eq!(w, 70_000, "avc1 width wrapped");
}

#[test]
fn kf_fragmented_sample_duration_wraps() {
    let cfg = muxide::fragmented::FragmentConfig { width: 640, height: 480, timescale: 90000, fragment_duration_ms: 1000, sps: vec![0x67, 1, 2, 3], pps: vec![0x68, 1], vps: None, av1_sequence_header: None, vp9_config: None };
    let mut m = muxide::fragmented::FragmentedMuxer::new(cfg);
    m.write_video(0, 0, &[0, 0, 0, 1, 0x65], true).unwrap();
    let r = m.write_video((1u64 << 32) + 5, (1u64 << 32) + 5, &[0, 0, 0, 1, 0x41], false);
    if r.is_err() { return; }
    let seg = m.flush_segment().unwrap();
    let p = find(&seg, b"trun");
    // trun: fullbox(4) sample_count(4) data_offset(4) then per sample duration,size,flags,cts
    let d0 = be32(&seg, p + 4 + 12) as u64;
    assert_eq!(d0, (1u64 << 32) + 5, "trun sample duration wrapped");
}
