use muxide::api::*;
fn key() -> Vec<u8> {
    vec![0,0,0,1,0x67,0x42,0x00,0x1e,0xda,0x02,0x80,0x2d,0x8b,0x11, 0,0,0,1,0x68,0xce,0x38,0x80, 0,0,0,1,0x65,0xaa,0xbb,0xcc,0xdd]
}
fn adts() -> Vec<u8> { vec![0xff, 0xf1, 0x4c, 0x80, 0x01, 0x3f, 0xfc, 0xaa, 0xbb] }
fn find(data: &[u8], typ: &[u8;4]) -> Option<usize> { data.windows(4).position(|w| w == typ).map(|p| p - 4) }
fn av_file() -> Vec<u8> {
    let mut out = Vec::new();
    let mut m = MuxerBuilder::new(&mut out).video(VideoCodec::H264, 640, 480, 30.0).audio(AudioCodec::Aac(AacProfile::Lc), 48000, 2).build().unwrap();
    m.write_video(0.0, &key(), true).unwrap();
    m.write_audio(0.0, &adts()).unwrap();
    m.finish().unwrap();
    out
}
fn be32(d: &[u8], o: usize) -> u32 { u32::from_be_bytes([d[o],d[o+1],d[o+2],d[o+3]]) }
#[test] fn tkhd_is_92_bytes() { let f = av_file(); let p = find(&f, b"tkhd").unwrap(); assert_eq!(be32(&f, p), 92, "tkhd box size"); }
#[test] fn tkhd_track_enabled() { let f = av_file(); let p = find(&f, b"tkhd").unwrap(); assert_eq!(f[p+11] & 1, 1, "track_enabled flag"); }
#[test] fn tkhd_dimensions_at_spec_offsets() { let f = av_file(); let p = find(&f, b"tkhd").unwrap(); assert_eq!(be32(&f, p+8+76), 640<<16, "width at payload offset 76"); }
#[test] fn vmhd_flags_1() { let f = av_file(); let p = find(&f, b"vmhd").unwrap(); assert_eq!(be32(&f, p+8), 1, "vmhd version/flags"); }
#[test] fn next_track_id_above_all() { let f = av_file(); let p = find(&f, b"mvhd").unwrap(); assert!(be32(&f, p+8+96) > 2, "next_track_ID {}", be32(&f, p+8+96)); }
#[test] fn frag_hvcc_reserved() {
    let mut m = MuxerBuilder::new(Vec::<u8>::new()).video(VideoCodec::H265, 640, 480, 30.0).with_vps(vec![0x40,1,2]).with_sps(vec![0x42,1,2,3]).with_pps(vec![0x44,1]).new_with_fragment().unwrap();
    let i = m.init_segment(); let p = find(&i, b"hvcC").unwrap();
    assert_eq!(i[p+8+13] & 0xf0, 0xf0); assert_eq!(i[p+8+15] & 0xfc, 0xfc);
}
#[test] fn frag_av1c_marker() {
    let mut m = MuxerBuilder::new(Vec::<u8>::new()).video(VideoCodec::Av1, 640, 480, 30.0).with_av1_sequence_header(vec![0x0a,0x0b,0,0,0]).new_with_fragment().unwrap();
    let i = m.init_segment(); let p = find(&i, b"av1C").unwrap();
    assert_eq!(i[p+8], 0x81, "av1C marker/version byte");
}
#[test] fn frag_vpcc_fullbox() {
    let cfg = muxide::codec::vp9::Vp9Config { width: 640, height: 480, profile: 0, bit_depth: 8, color_space: 1, transfer_function: 1, matrix_coefficients: 1, level: 10, full_range_flag: 0 };
    let mut m = MuxerBuilder::new(Vec::<u8>::new()).video(VideoCodec::Vp9, 640, 480, 30.0).with_vp9_config(cfg).new_with_fragment().unwrap();
    let i = m.init_segment(); let p = find(&i, b"vpcC").unwrap();
    assert_eq!(be32(&i, p), 20, "vpcC box size (8 header + 12 payload)");
}
