//! C19/C07: the fragmented init segment's av1C must be an AV1CodecConfigurationRecord (AV1-ISOBMFF 2.3.3):
//! marker=1 version=1 (0x81), seq_profile/seq_level_idx, tier/bitdepth/mono/subsampling byte, a 4th byte, then the configOBUs.
use muxide::fragmented::{FragmentConfig, FragmentedMuxer};

/// sequence header OBU: obu_header(type 1, has_size) size, then seq_profile=1 (3 bits), still_picture=0, reduced_still_picture_header=1,
/// seq_level_idx=5 (5 bits), frame_width_bits_minus_1=0 (4), frame_height_bits_minus_1=0 (4), max_w-1 (1 bit), max_h-1 (1 bit),
/// use_128x128=0, enable_filter_intra=0, enable_intra_edge_filter=0, enable_superres=0, enable_cdef=0, enable_restoration=0,
/// color_config: high_bitdepth=1, (profile 1: no mono), color_description_present=0, color_range=0, (profile 1: subsampling 0,0), separate_uv_delta_q=0, film_grain=0
fn seq_header_profile1() -> Vec<u8> {
    // bits: 001 0 1 00101 0000 0000 0 0 0 0 0 0 0 0 1 0 0 0 0  + trailing
    let bits = "001" .to_string() + "0" + "1" + "00101" + "0000" + "0000" + "0" + "0" + "000000" + "1" + "0" + "0" + "0" + "0" + "1";
    let mut bytes = Vec::new();
    let mut cur = 0u8; let mut n = 0;
    for c in bits.chars() { cur = (cur << 1) | (c == '1') as u8; n += 1; if n == 8 { bytes.push(cur); cur = 0; n = 0; } }
    if n > 0 { bytes.push(cur << (8 - n)); }
    let mut obu = vec![0x0A, bytes.len() as u8];
    obu.extend_from_slice(&bytes);
    obu
}

fn find(hay: &[u8], needle: &[u8]) -> usize { hay.windows(needle.len()).position(|w| w == needle).unwrap() }

#[test]
fn init_av1c_is_a_configuration_record() {
    let sh = seq_header_profile1();
    let cfg = muxide::codec::av1::extract_av1_config(&sh).expect("the test's sequence header parses");
    assert_eq!(cfg.seq_profile, 1);
    assert_eq!(cfg.seq_level_idx, 5);
    let config = FragmentConfig { width: 640, height: 480, timescale: 90000, fragment_duration_ms: 1000, sps: vec![], pps: vec![], vps: None,
        av1_sequence_header: Some(sh.clone()), vp9_config: None };
    let mut m = FragmentedMuxer::new(config);
    let init = m.init_segment();
    let p = find(&init, b"av1C");
    let size = u32::from_be_bytes(init[p - 4..p].try_into().unwrap()) as usize;
    let rec = &init[p + 4..p - 4 + size];
    assert_eq!(rec[0], 0x81, "marker/version");
    assert_eq!(rec[1], (1 << 5) | 5, "seq_profile / seq_level_idx_0");
    assert_eq!(rec[2] & 0x40, 0x40, "high_bitdepth");
    assert_eq!(rec[3] & 0xE0, 0, "reserved bits of byte 3");
    assert_eq!(&rec[4..], &sh[..], "configOBUs = the supplied sequence header");
}
